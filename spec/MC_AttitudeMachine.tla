------------------------- MODULE MC_AttitudeMachine -------------------------
EXTENDS AttitudeMachine

(* 32-bit bound: ProperRot squares Norm2, so Norm2 < 46340 for every register *)
Thin     == NearId(50) \cup NearPi(6) \cup HalfTurns
GenQuick == TwoO \cup L(1)
VecQuick == { <<1,0,0>>, <<0,1,0>>, <<0,0,1>>, <<1,-2,2>>, <<-3,1,2>> }

(* closed machine: 2O is a group, behaviours of any length stay inside *)
GenGroup == TwoO
OneRoute == {"any"}
NoMethods == {}
AllMethods == Methods

(* Case emission for the conformance harness: every state of the quick grid with  *)
(* the exact values the implementation must reproduce.                            *)
PairCases(S, T) == { [p |-> p, v |-> v, pv |-> Mul(p, v), vp |-> Mul(v, p),
                      Mp |-> M(p), Np |-> Norm2(p)] : p \in S, v \in T }
EmitPairs(S, T) == ndJsonSerialize(IOEnv.OUT_FILE, SetToSeq(PairCases(S, T))) /\ (TRUE \/ depth = 0)

GenQuickThin == GenQuick \cup Thin
GenDeep      == L(2)
(* postconditions: write the case table the conformance harness replays *)
EmitQuick == EmitPairs(GenQuickThin, GenQuick)
EmitDeep  == EmitPairs(GenDeep, GenQuick)

(* ------------------------------- C02 case table ------------------------------- *)
C02Grid == L(2) \cup Thin
SetOut(S) == SetToSeq(S)
MethodCase(u) == LET Rr == MatOf(u) Mn == Rr[1] N == Rr[2] IN
    [ u |-> u, Mn |-> Mn, N |-> N,
      shepperd |-> SetOut(Shepperd(Mn, N)), shep_branches |-> SetOut(ShepBranches(Mn)),
      closed |-> << Dw(Mn, N), Awx(Mn), Awy(Mn), Awz(Mn) >>,
      hughes |-> SetOut(Hughes(Mn, N)),
      arms_neg |-> SarArms(Mn, N, -1, 2), arms_zero |-> SarArms(Mn, N, 0, 1), arms_pos |-> SarArms(Mn, N, 1, 2) ]
EmitC02 == ndJsonSerialize(IOEnv.OUT_FILE, SetToSeq({ MethodCase(u) : u \in C02Grid })) /\ (TRUE \/ depth = 0)
=============================================================================
