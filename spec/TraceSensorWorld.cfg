SPECIFICATION TraceSpec
CONSTANTS
  Attitudes <- Empty
  Dips <- Empty
  Scales <- Empty
CONSTRAINT Progress
POSTCONDITION Accepted
CHECK_DEADLOCK FALSE
