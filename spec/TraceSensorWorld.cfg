SPECIFICATION TraceSpec
CONSTANTS
  Attitudes <- Empty
  Dips <- Empty
  Scales <- Empty
CONSTRAINT Progress
INVARIANT WellPosed
INVARIANT Recovers
POSTCONDITION Accepted
CHECK_DEADLOCK FALSE
