SPECIFICATION Spec
CONSTANTS
  Pairs <- TwinPairs
  Classes <- RowClasses
  Ns <- NsThorough
INVARIANT OneResultPerRow
INVARIANT RowLocal
POSTCONDITION EmitAll
