SPECIFICATION Spec
CONSTANTS
  Starts <- StartsQ
  StepQuats <- StepsRational
  HalfRates <- HR
  MaxK = 3
INVARIANT ClosedFormExact
INVARIANT Semigroup
INVARIANT ThetaSquared
INVARIANT ConventionsAgree
INVARIANT SeriesLowOrders
POSTCONDITION EmitAll
