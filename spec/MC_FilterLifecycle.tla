-------------------------- MODULE MC_FilterLifecycle --------------------------
EXTENDS FilterLifecycle
Emit(S) == ndJsonSerialize(IOEnv.OUT_FILE, SetToSeq(S)) /\ (TRUE \/ how = "")
(* C03 catalogue *)
EmitCfgs == Emit(Cfgs)
OneInst == {1}
TwoInst == {1, 2}
Ids3 == {1, 2, 3}
NoFaults == {"ok"}
AB == { c \in Cfgs : c.gain = "default" /\ c.rate = "100Hz" /\ ((c.f = "Madgwick" /\ c.arch = "MARG") \/ (c.f = "Mahony" /\ c.arch = "IMU")) }
OneCfg == { CHOOSE c \in Cfgs : c.f = "Madgwick" /\ c.arch = "MARG" /\ c.gain = "default" /\ c.rate = "100Hz" }
TwoCfgs == OneCfg \cup { CHOOSE c \in Cfgs : c.f = "Mahony" /\ c.arch = "IMU" /\ c.gain = "default" /\ c.rate = "100Hz" }
=============================================================================
