---------------------------- MODULE SyntheticSensors ----------------------------
(* C20: the synthetic data generator.  A trajectory on a one-parameter subgroup,     *)
(* q_k = q_0 * r^k (integer quaternions), seen by ideal sensors: accelerometer and    *)
(* magnetometer samples are the reference vectors in the body frame of sample k,      *)
(*      acc_k = M(q_k)^T g ,   mag_k = M(q_k)^T h      (times 1/Norm2(q_k)),           *)
(* and the generator's angular rate between samples is 2 f vec(q_k^* q_{k+1}) = 2 f vec(r)/|r|. *)
EXTENDS Grids, TLC, Json, IOUtils, SequencesExt

CONSTANTS Starts, StepQuats, Refs, MaxK
VARIABLES q0, r, q, k
vars == <<q0, r, q, k>>
Init == q0 \in Starts /\ r \in StepQuats /\ q = q0 /\ k = 0
Advance == k < MaxK /\ q' = Mul(q, r) /\ k' = k + 1 /\ UNCHANGED <<q0, r>>
Spec == Init /\ [][Advance]_vars

Body(qq, ref) == MatVec(Transpose(M(qq)), ref)         \* reference vector in the body frame, times Norm2(qq)
(* the relative rotation between consecutive samples is r, whatever the sample *)
ConstantRate == Mul(Conj(q), Mul(q, r)) = ScaleQ(Norm2(q), r)
(* body-frame readings have the length of the reference (rigid rotation) *)
RigidReadings == \A ref \in Refs : Dot3(Body(q, ref), Body(q, ref)) = Norm2(q) * Norm2(q) * Dot3(ref, ref)
(* rotating the reading back gives the reference *)
BackToReference == \A ref \in Refs : MatVec(M(q), Body(q, ref)) = Scale3(Norm2(q) * Norm2(q), ref)
=============================================================================
