SPECIFICATION TraceSpec
CONSTANTS
  Bufs <- Empty
  Contents <- Empty
  Funs <- Empty
  Results <- Empty
CONSTRAINT Progress
INVARIANT Repeatable
POSTCONDITION Accepted
CHECK_DEADLOCK FALSE
