SPECIFICATION TraceSpec
CONSTANTS
  Bufs <- Empty
  Contents <- Empty
  Funs <- Empty
  Results <- Empty
CONSTRAINT Progress
POSTCONDITION Accepted
CHECK_DEADLOCK FALSE
