-------------------------------- MODULE Oleq --------------------------------
(* OLEQ (Zhou et al.), the linear attitude estimator of ahrs/filters/oleq.py, in exact integers.          *)
(*                                                                                                        *)
(* THEORY.  A measurement b of a reference direction r under the attitude q is b = M(q)^T r, i.e. in      *)
(* quaternions q b = r q, i.e. RightMat(b) q = LeftMat(r) q.  For a pure r, LeftMat(r)^T LeftMat(r) =     *)
(* |r|^2 I, hence        W(b, r) q = |r|^2 q      with   W(b, r) = LeftMat(r)^T RightMat(b):              *)
(* the attitude is a fixed direction of every W (FixedPoint); W is symmetric and an involution up to       *)
(* scale (Involution), so its eigenvalues are +-|b||r|, each twice; two non-collinear reference pairs      *)
(* share exactly one such direction (UniqueDirection).  The estimator's matrix  R = (I + a1 W1 + a2 W2)/2  *)
(* therefore has the attitude as its dominant eigenvector.                                                  *)
(*                                                                                                        *)
(* AS BUILT.  WW(Db, Dr) of the code is the hand-expanded sum Dr_x M1 + Dr_y M2 + Dr_z M3 (eq. 18a-c);      *)
(* AsBuiltIsTheory says it is W.  The code then runs the power iteration q <- R q / |R q| from a RANDOM    *)
(* start at most 21 times (stops early when two iterates differ by less than 1e-8): a named deviation     *)
(* from the ideal estimator (SensorWorld!Estimate) -- the output is the dominant eigenvector only as far  *)
(* as 21 multiplications bring it.  The conformance harness (vf/oleq_model.py) evaluates exactly that      *)
(* iteration on the exact matrix emitted here and requires the code's output to coincide with it.          *)
EXTENDS QuatAlg, Grids, TLC, Json, IOUtils, SequencesExt

Col4(A, j)    == << A[1][j], A[2][j], A[3][j], A[4][j] >>
Tr4(A)        == << Col4(A, 1), Col4(A, 2), Col4(A, 3), Col4(A, 4) >>
Mat4Mul(A, B) == [ i \in 1..4 |-> [ j \in 1..4 |-> Dot4(A[i], Col4(B, j)) ] ]
Mat4Add(A, B) == [ i \in 1..4 |-> [ j \in 1..4 |-> A[i][j] + B[i][j] ] ]
Mat4Scale(k, A) == [ i \in 1..4 |-> [ j \in 1..4 |-> k * A[i][j] ] ]
Ident4        == << <<1,0,0,0>>, <<0,1,0,0>>, <<0,0,1,0>>, <<0,0,0,1>> >>

Wtheory(b, r) == Mat4Mul(Tr4(LeftMat(Pure(r))), RightMat(Pure(b)))

(* transcription of OLEQ.WW *)
M1(b) == << << b[1], 0, b[3], -b[2] >>, << 0, b[1], b[2], b[3] >>, << b[3], b[2], -b[1], 0 >>, << -b[2], b[3], 0, -b[1] >> >>
M2(b) == << << b[2], -b[3], 0, b[1] >>, << -b[3], -b[2], b[1], 0 >>, << 0, b[1], b[2], b[3] >>, << b[1], 0, b[3], -b[2] >> >>
M3(b) == << << b[3], b[2], -b[1], 0 >>, << b[2], -b[3], 0, b[1] >>, << -b[1], 0, -b[3], b[2] >>, << 0, b[1], b[2], b[3] >> >>
Wbuilt(b, r) == Mat4Add(Mat4Add(Mat4Scale(r[1], M1(b)), Mat4Scale(r[2], M2(b))), Mat4Scale(r[3], M3(b)))

CONSTANTS Attitudes,   \* integer quaternions u (the ghost attitudes)
          RefPairs,    \* pairs << gravity reference, magnetic reference >> of integer 3-vectors
          Weights      \* pairs << a1, a2 >> of positive integers

AsBuiltIsTheory == \A b \in Vecs3(2), r \in Vecs3(2) : Wbuilt(b, r) = Wtheory(b, r)
Symmetric       == \A b \in Vecs3(2), r \in Vecs3(2) : Wtheory(b, r) = Tr4(Wtheory(b, r))
Involution      == \A b \in Vecs3(2), r \in Vecs3(2) :
                      Mat4Mul(Wtheory(b, r), Wtheory(b, r)) = Mat4Scale(Dot3(b, b) * Dot3(r, r), Ident4)
(* the measurement of r under u, times Norm2(u) *)
Meas(u, r)      == MatVec(Transpose(M(u)), r)
FixedPoint      == \A uu \in Attitudes, rr \in RefPairs : \A k \in 1..2 :
                      Mat4Vec(Wtheory(Meas(uu, rr[k]), rr[k]), uu) = ScaleQ(Norm2(uu) * Dot3(rr[k], rr[k]), uu)
(* no other direction of the small grid is fixed by both matrices *)
UniqueDirection == \A uu \in Attitudes, rr \in RefPairs : \A x \in L(1) :
                      ( /\ Mat4Vec(Wtheory(Meas(uu, rr[1]), rr[1]), x) = ScaleQ(Norm2(uu) * Dot3(rr[1], rr[1]), x)
                        /\ Mat4Vec(Wtheory(Meas(uu, rr[2]), rr[2]), x) = ScaleQ(Norm2(uu) * Dot3(rr[2], rr[2]), x) )
                      => Collinear4(x, uu)

(* the iteration matrix, cleared of denominators: with unit directions b_k = B_k / (N |r_k|), r_k / |r_k| the code's         *)
(* 2 R = I + a1 W(b1, r1/|r1|) + a2 W(b2, r2/|r2|) = I + a1 W(B1, r1) / (N |r1|^2) + a2 W(B2, r2) / (N |r2|^2)                *)
(* is emitted as the integer matrices W(B_k, r_k) with their scalar denominators N |r_k|^2                                     *)
VARIABLES u, rp, w
vars == <<u, rp, w>>
Init == u \in Attitudes /\ rp \in RefPairs /\ w \in Weights
Next == UNCHANGED vars
Spec == Init /\ [][Next]_vars
Case(uu, rr, ww) == [u |-> uu, refs |-> rr, weights |-> ww, N |-> Norm2(uu),
                     W1 |-> Wtheory(Meas(uu, rr[1]), rr[1]), d1 |-> Norm2(uu) * Dot3(rr[1], rr[1]),
                     W2 |-> Wtheory(Meas(uu, rr[2]), rr[2]), d2 |-> Norm2(uu) * Dot3(rr[2], rr[2]),
                     meas |-> << Meas(uu, rr[1]), Meas(uu, rr[2]) >>]
(* dominant direction: u is an eigenvector of  d2 a1 W1 + d1 a2 W2  with the largest possible eigenvalue d1 d2 (a1 + a2) *)
Dominant == LET S == Mat4Add(Mat4Scale(w[1], Mat4Scale(Norm2(u) * Dot3(rp[2], rp[2]), Wtheory(Meas(u, rp[1]), rp[1]))),
                             Mat4Scale(w[2], Mat4Scale(Norm2(u) * Dot3(rp[1], rp[1]), Wtheory(Meas(u, rp[2]), rp[2]))))
            IN  Mat4Vec(S, u) = ScaleQ((w[1] + w[2]) * Norm2(u) * Dot3(rp[1], rp[1]) * Norm2(u) * Dot3(rp[2], rp[2]), u)
=============================================================================
