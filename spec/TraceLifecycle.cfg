SPECIFICATION TraceSpec
CONSTANTS
  Insts <- One
  SampleIds <- Ids1
  MaxLen = 1000
  CfgSet <- Cfgs
  FaultSet <- OkOnly
CONSTRAINT Progress
POSTCONDITION Accepted
CHECK_DEADLOCK FALSE
