SPECIFICATION Spec
CONSTANTS
  N = 9
  MaxGap = 3
INVARIANT NoJumpAfterRJ
INVARIANT FilledContinuesLeft
INVARIANT NoJumpBetweenValid
PROPERTY Idempotent
PROPERTY ZeroGapsZeroJumps
POSTCONDITION EmitAll
