SPECIFICATION SpecObs
CONSTANTS
  Gen <- TwoO
  Start <- GenL1
  MulRoutes <- OneRoute
  ConjRoutes <- OneRoute
  MaxDepth = 1
CONSTRAINT Bound
INVARIANT NonZero
INVARIANT Laws2
INVARIANT Laws3AtObs
INVARIANT InverseLaw
POSTCONDITION EmitT
