---------------------------- MODULE TraceWmmSession ----------------------------
(* histories recorded on real WMM objects; the harness abstracts the eight elements an *)
(* object holds after each call to the identity of the answer they are bit-equal to     *)
(* (alpha), TLC replays the history through WmmSession and demands the same.            *)
EXTENDS WmmSession
Traces == ndJsonDeserialize(IOEnv.TRACE_FILE)
VARIABLES tid, l
tvars == <<vars, tid, l>>
ASSUME TLCSet(1, [t \in 1..Len(Traces) |-> 0])
D3 == {"d2017", "d2022", "d2027"}
P6 == {"munich", "lat0", "lon0", "northpole", "southpole", "lon180"}
F2 == {"NED", "ENU"}
NoDev == {}
TraceInit == tid \in 1..Len(Traces) /\ l = 1 /\ Init
Ev == Traces[tid].events[l]
IsEvent(name) == l <= Len(Traces[tid].events) /\ Ev.act = name /\ l' = l + 1 /\ UNCHANGED tid
Logged == /\ served' = << Ev.served[1], Ev.served[2], Ev.served[3] >>
TConstruct == IsEvent("Construct") /\ Construct(Ev.d, Ev.p, Ev.f) /\ Logged
TQuery     == IsEvent("Query") /\ Query(Ev.d, Ev.p) /\ Logged
TRead      == IsEvent("Read") /\ Read /\ Logged
TraceNext == TConstruct \/ TQuery \/ TRead
TraceSpec == TraceInit /\ [][TraceNext]_tvars
(* a state that violates an invariant is pruned and does not count as progress (an INVARIANT in the cfg would stop
   the whole batch at the first violation; priming the invariants into the actions is an order of magnitude slower) *)
TraceInv == ServesWhatWasAsked /\ ScaledOnce
Progress == TraceInv /\ (LET f == TLCGet(1) IN IF f[tid] < l THEN TLCSet(1, [f EXCEPT ![tid] = l]) ELSE TRUE)
Accepted == LET f == TLCGet(1) IN
            \A t \in 1..Len(Traces) : \/ f[t] = Len(Traces[t].events) + 1
                                      \/ PrintT(<<"REJECTED", t, f[t]>>) /\ FALSE
=============================================================================
