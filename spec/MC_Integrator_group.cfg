\* the closed machine over 2O: orbits of any length
SPECIFICATION Spec
CONSTANTS
  Starts <- StepsGroup
  StepQuats <- StepsGroup
  HalfRates <- HR
  MaxK = 1000000
VIEW ViewNoK
INVARIANT ClosedFormExactGroup
INVARIANT ThetaSquared
INVARIANT ConventionsAgree
INVARIANT SeriesLowOrders
