SPECIFICATION Spec
CONSTANTS
  MaxArity = 4
INVARIANT TypeOK
INVARIANT Bounded
INVARIANT EmittedIsReachable
PROPERTY FormBlind
POSTCONDITION EmitTable
CHECK_DEADLOCK FALSE
