SPECIFICATION Spec
CONSTANTS
  Bufs = {b1, b2}
  Contents = {c1, c2}
  Funs = {f, g}
  Results = {r1, r2}
CONSTRAINT MemoBound
INVARIANT Repeatable
PROPERTY CallsDoNotWrite
