------------------------------ MODULE MC_Metrics ------------------------------
EXTENDS Metrics
Emit(S) == ndJsonSerialize(IOEnv.OUT_FILE, SetToSeq(S)) /\ (TRUE \/ p = q)
Canon(S) == { a \in S : \E i \in 1..4 : a[i] > 0 /\ \A j \in 1..(i-1) : a[j] = 0 }
PairsO == { [p |-> a, q |-> b, deg |-> AngleDeg(a, b), c2 |-> C2(a, b)] : a \in TwoO, b \in Canon(TwoO) }
RatGrid == Canon(L(1)) \cup { <<3,1,-2,1>>, <<1,2,2,-3>>, <<5,0,1,0>>, <<12,1,-1,0>>, <<40,0,0,1>>, <<1,30,0,-20>> }
PairsR == { [p |-> a, q |-> b, deg |-> -1, c2 |-> C2(a, b)] : a \in RatGrid, b \in RatGrid }
EmitAll == Emit(PairsO \cup PairsR)
=============================================================================
