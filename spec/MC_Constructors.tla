--------------------------- MODULE MC_Constructors ---------------------------
EXTENDS Constructors
Emit(S) == ndJsonSerialize(IOEnv.OUT_FILE, SetToSeq(S)) /\ (TRUE \/ out = "")
EmitAll == Emit({ [call |-> c, expected |-> Expected(c)] : c \in AllCalls })
=============================================================================
