---------------------------- MODULE MC_CallerMemory ----------------------------
EXTENDS CallerMemory
MemoBound == Len(memo) <= 3
MemoBound4 == Len(memo) <= 4
=============================================================================
