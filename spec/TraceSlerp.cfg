SPECIFICATION TraceSpec
CONSTANTS
  N = @N@
  MaxGap = 3
CONSTRAINT Progress
POSTCONDITION Accepted
CHECK_DEADLOCK FALSE
