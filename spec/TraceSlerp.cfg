SPECIFICATION TraceSpec
CONSTANTS
  N = @N@
  MaxGap = 3
CONSTRAINT Progress
INVARIANT NoJumpAfterRJ
INVARIANT FilledContinuesLeft
INVARIANT NoJumpBetweenValid
POSTCONDITION Accepted
CHECK_DEADLOCK FALSE
