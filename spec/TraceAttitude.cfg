SPECIFICATION TraceSpec
CONSTANTS
  Gen <- Empty
  Start <- Empty
  VecSet <- Empty
  MulRoutes <- AllMulRoutes
  DcmRoutes <- AllDcmRoutes
  RotRoutes <- AllRotRoutes
  ConjRoutes <- AllConjRoutes
  QuatMethods <- Methods
  MaxDepth = 1000000
CONSTRAINT Progress
POSTCONDITION Accepted
CHECK_DEADLOCK FALSE
