SPECIFICATION MSpec
CONSTANTS
  NSlots = 12
  Recover = 4
  TheCfg <- MargCfg
INVARIANT RejectedOnlyAtFault
POSTCONDITION EmitPatterns
