\* C03: the configuration catalogue; one instance, histories of 2..3 fault-free samples
SPECIFICATION Spec
CONSTANTS
  Insts <- OneInst
  SampleIds <- Ids3
  MaxLen = 3
  CfgSet <- Cfgs
  FaultSet <- NoFaults
INVARIANT OneRowPerSample
INVARIANT FaultFreeIsOk
POSTCONDITION EmitCfgs
