-------------------------------- MODULE Metrics --------------------------------
(* C18: the seven rotation metrics as functions of the relative rotation angle t.      *)
(* For integer quaternions p, q the cosine of the relative HALF angle is                *)
(*      cos(t/2) = |p.q| / (|p| |q|),   so   C2(p,q) = (p.q)^2 / (N(p) N(q))  is rational *)
(* and every metric is a monotone function of it:                                       *)
(*   qeip = 1 - cos(t/2), qdist^2 = 2(1 - cos(t/2)), qcip = t/2, qad = t,                *)
(*   chordal = identity_deviation = 2 sqrt2 sin(t/2), angular_distance = sqrt2 t.        *)
(* On the binary octahedral group t takes only the values 0, 90, 120, 180 degrees, so   *)
(* the triangle inequality of the angle metric is an integer statement over all triples. *)
EXTENDS Grids, TLC, Json, IOUtils, SequencesExt

CONSTANTS Rots
VARIABLES p, q, r
vars == <<p, q, r>>
Init == p \in Rots /\ q \in Rots /\ r \in Rots
Spec == Init /\ [][UNCHANGED vars]_vars

C2(a, b) == << Dot4(a, b) * Dot4(a, b), Norm2(a) * Norm2(b) >>        \* cos^2(t/2) as a rational
SameC2(x, y) == x[1] * y[2] = y[1] * x[2]
(* relative angle in degrees, for group elements *)
AngleDeg(a, b) == LET c == C2(a, b) IN
                  CASE c[1] = c[2]       -> 0
                    [] 2 * c[1] = c[2]   -> 90
                    [] 4 * c[1] = c[2]   -> 120
                    [] c[1] = 0          -> 180
(* trace form for matrices: chordal^2 = 2 (3 - tr(R1^T R2)) = 8 sin^2(t/2) = 8 (1 - C2) *)
ChordalSq(a, b) == LET t == Trace3(MatMul(Transpose(M(a)), M(b))) IN << 2 * (3 * Norm2(a) * Norm2(b) - t), Norm2(a) * Norm2(b) >>

NonNegative   == C2(p, q)[1] >= 0 /\ C2(p, q)[1] <= C2(p, q)[2]               \* 0 <= cos^2 <= 1 (Cauchy-Schwarz)
Symmetric     == C2(p, q) = C2(q, p)
SignInvariant == C2(NegQ(p), q) = C2(p, q) /\ C2(p, NegQ(q)) = C2(p, q)
ZeroIffSame   == (C2(p, q)[1] = C2(p, q)[2]) <=> Collinear4(p, q)
LeftInvariant  == SameC2(C2(Mul(r, p), Mul(r, q)), C2(p, q))
RightInvariant == SameC2(C2(Mul(p, r), Mul(q, r)), C2(p, q))
ChordalIsTrace == LET c == C2(p, q) cs == ChordalSq(p, q) IN cs[1] * c[2] = 8 * (c[2] - c[1]) * cs[2]
Triangle       == AngleDeg(p, r) <= AngleDeg(p, q) + AngleDeg(q, r)
=============================================================================
