SPECIFICATION Spec
CONSTANTS
  N = 7
  MaxGap = 3
INVARIANT NoJumpAfterRJ
INVARIANT FilledContinuesLeft
INVARIANT NoJumpBetweenValid
PROPERTY Idempotent
PROPERTY ZeroGapsZeroJumps
POSTCONDITION EmitAll
