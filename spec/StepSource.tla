----------------------------- MODULE StepSource -----------------------------
(* C08 (and C06): where a filter object takes its step size from.                    *)
(* An object is built with its own step (Dt=, or 1/frequency=).  Every update call   *)
(* either names a step (dt=...) or omits it.  The step a call integrates over is the *)
(* named one when there is one and the object's own otherwise; a named step is used  *)
(* for that call only: it is not remembered, and the object's own step never moves.  *)
(* Steps are counted in units of a base step; 0 stands for "argument omitted".       *)
EXTENDS Naturals, Sequences, TLC, Json, IOUtils, SequencesExt, FiniteSetsExt

CONSTANTS OwnSteps, ArgSteps, MaxCalls, Builders
VARIABLES own, how, calls, used
vars == <<own, how, calls, used>>

Init == own \in OwnSteps /\ how \in Builders /\ calls = <<>> /\ used = <<>>
Call(a) == /\ Len(calls) < MaxCalls
           /\ calls' = Append(calls, a)
           /\ used'  = Append(used, IF a = 0 THEN own ELSE a)
           /\ UNCHANGED <<own, how>>
Next == \E a \in ArgSteps : Call(a)
Spec == Init /\ [][Next]_vars

UsedOf(o, cs) == [i \in DOMAIN cs |-> IF cs[i] = 0 THEN o ELSE cs[i]]
TypeOK == own \in OwnSteps /\ Len(used) = Len(calls) /\ Len(calls) <= MaxCalls
OwnStepNeverMoves == [][own' = own]_vars
ExplicitWins  == \A i \in DOMAIN calls : calls[i] # 0 => used[i] = calls[i]
DefaultIsOwn  == \A i \in DOMAIN calls : calls[i] = 0 => used[i] = own
NoMemory      == \A i, j \in DOMAIN calls : calls[i] = calls[j] => used[i] = used[j]
HistoryFree   == used = UsedOf(own, calls)
(* the way the object was built does not matter *)
BuilderBlind  == \A i \in DOMAIN calls : used[i] \in OwnSteps \cup (ArgSteps \ {0})

(* every call schedule of the bounded machine, with the step each call integrates over *)
RECURSIVE SeqsUpTo(_)
SeqsUpTo(n) == IF n = 0 THEN {<<>>} ELSE LET S == SeqsUpTo(n - 1) IN S \cup { Append(s, a) : s \in { x \in S : Len(x) = n - 1 }, a \in ArgSteps }
Schedules == { [kind |-> "schedule", own |-> o, how |-> b, calls |-> cs, used |-> UsedOf(o, cs)]
               : o \in OwnSteps, b \in Builders, cs \in SeqsUpTo(MaxCalls) \ {<<>>} }
EmitSchedules == ndJsonSerialize(IOEnv.OUT_FILE, SetToSeq(Schedules)) /\ (TRUE \/ own = 0)
=============================================================================
