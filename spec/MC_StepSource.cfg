SPECIFICATION Spec
CONSTANTS
  OwnSteps <- Own
  ArgSteps <- Args
  Builders <- Bld
  MaxCalls = 3
INVARIANT TypeOK
INVARIANT ExplicitWins
INVARIANT DefaultIsOwn
INVARIANT NoMemory
INVARIANT HistoryFree
INVARIANT BuilderBlind
PROPERTY OwnStepNeverMoves
POSTCONDITION EmitSchedules
CHECK_DEADLOCK FALSE
