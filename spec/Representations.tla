--------------------------- MODULE Representations ---------------------------
(* C10: attitude representations and the conversions between them.              *)
(* Angles live in the exact domain as HALF-ANGLE PAIRS h = <<a, b>>: the angle   *)
(* is 2*atan2(b, a) (one libm call in the harness).  An elementary rotation by   *)
(* h about a coordinate axis is the integer quaternion (a, b*e): every Euler     *)
(* product, every axis-angle rotation about an axis of integer length and every  *)
(* integer power is then exact.                                                  *)
(* The machine: a register holding one representation of a ghost rotation g;     *)
(* conversions change the representation, never the rotation.                    *)
EXTENDS Grids, TLC, Json, IOUtils, SequencesExt

Elem(ax, h) == CASE ax = "x" -> << h[1], h[2], 0, 0 >>
                 [] ax = "y" -> << h[1], 0, h[2], 0 >>
                 [] ax = "z" -> << h[1], 0, 0, h[2] >>
(* full-angle pair (cos, sin) up to a positive factor *)
Double(h) == << h[1]*h[1] - h[2]*h[2], 2*h[1]*h[2] >>
SameAngle(c1, c2) == c1[1]*c2[2] = c1[2]*c2[1] /\ c1[1]*c2[1] + c1[2]*c2[2] > 0

(* roll-pitch-yaw (aerospace zyx): q = qz(yaw) qy(pitch) qx(roll) *)
FromRpy(r, p, y) == Mul(Mul(Elem("z", y), Elem("y", p)), Elem("x", r))
(* what to_angles extracts, as full-angle pairs (positive factors dropped) *)
RollOf(q)   == << Norm2(q) - 2*(q[2]*q[2] + q[3]*q[3]), 2*(q[1]*q[2] + q[3]*q[4]) >>
YawOf(q)    == << Norm2(q) - 2*(q[3]*q[3] + q[4]*q[4]), 2*(q[1]*q[4] + q[2]*q[3]) >>
SinPitch(q) == << 2*(q[1]*q[3] - q[4]*q[2]), Norm2(q) >>            \* rational sin(pitch)

(* Euler sequence: the ordered product of the elementary rotations *)
SeqQuat(axes, hs) == IF Len(axes) = 0 THEN One
                     ELSE IF Len(axes) = 1 THEN Elem(axes[1], hs[1])
                     ELSE IF Len(axes) = 2 THEN Mul(Elem(axes[1], hs[1]), Elem(axes[2], hs[2]))
                     ELSE Mul(Mul(Elem(axes[1], hs[1]), Elem(axes[2], hs[2])), Elem(axes[3], hs[3]))

(* axis-angle about an integer axis n of INTEGER length len: q = (a*len, b*n) *)
FromAxang(n, len, h) == << h[1]*len, h[2]*n[1], h[2]*n[2], h[2]*n[3] >>

CONSTANTS HalfAngles,      \* pairs offered for roll / yaw / Euler angles
          PitchHalf,       \* pairs with |b| < a  (|pitch| < 90 degrees)
          AxisSet,         \* <<n, len>> with len*len = n.n
          TurnHalf,        \* pairs with b > 0     (rotation angle in (0, pi))
          Exponents        \* integer exponents
Axes == {"x", "y", "z"}
Seqs == { <<a>> : a \in Axes } \cup { <<a, b>> : a \in Axes, b \in Axes } \cup
        { <<a, b, c>> : a \in Axes, b \in Axes, c \in Axes }

VARIABLES g,      \* ghost: integer quaternion of the rotation
          rep,    \* which representation the register holds
          pay,    \* its payload
          org     \* the origin description (kept to state the round-trip laws)
vars == <<g, rep, pay, org>>

Init == \/ \E r \in HalfAngles, p \in PitchHalf, y \in HalfAngles :
             /\ org = << "rpy", r, p, y >> /\ rep = "rpy" /\ pay = << r, p, y >> /\ g = FromRpy(r, p, y)
        \/ \E ax \in AxisSet, h \in TurnHalf :
             /\ org = << "axang", ax[1], ax[2], h >> /\ rep = "axang" /\ pay = << ax[1], ax[2], h >>
             /\ g = FromAxang(ax[1], ax[2], h)
        \/ \E s \in Seqs : \E hs \in [1..Len(s) -> HalfAngles] :
             /\ org = << "euler", s, hs >> /\ rep = "euler" /\ pay = << s, hs >> /\ g = SeqQuat(s, hs)

RpyRoutes   == {"Quaternion(rpy=)", "Quaternion.from_rpy", "Quaternion.from_angles", "QuaternionArray(rpy=)", "rpy2q"}
AngRoutes   == {"Quaternion.to_angles", "QuaternionArray.to_angles", "q2rpy"}
AxqRoutes   == {"axang2quat", "DCM(axang=)+to_quaternion"}
QaxRoutes   == {"Quaternion.to_axang", "quat2axang"}
MatRoutes   == {"rot_seq", "DCM(euler=)"}

(* conversions: payload computed from the previous payload, never from g *)
RpyToQuat(route) == rep = "rpy"   /\ rep' = "quat" /\ pay' = FromRpy(pay[1], pay[2], pay[3]) /\ UNCHANGED <<g, org>>
QuatToRpy(route) == rep = "quat"  /\ rep' = "angles"
                    /\ pay' = << RollOf(pay), SinPitch(pay), YawOf(pay) >> /\ UNCHANGED <<g, org>>
AxangToQuat(route) == rep = "axang" /\ rep' = "quat" /\ pay' = FromAxang(pay[1], pay[2], pay[3]) /\ UNCHANGED <<g, org>>
(* quaternion -> axis-angle: axis direction = vector part (for sin > 0), half-angle pair = (w, |v|); *)
(* |v| is an integer exactly when the register came from an integer-length axis                      *)
(* the register may hold either representative of the rotation: -q is the same rotation with a negative scalar part, *)
(* its axis-angle reading is the opposite axis with the angle 2 pi - theta (half-angle pair (-w, |v|))                *)
Negate == rep = "quat" /\ org[1] = "axang" /\ rep' = "quatneg" /\ pay' = NegQ(pay) /\ UNCHANGED <<g, org>>
QuatToAxang(route) == /\ rep \in {"quat", "quatneg"} /\ org[1] = "axang"
                      /\ rep' = (IF rep = "quat" THEN "axang2" ELSE "axang2neg")
                      /\ pay' = << Vec(pay), << pay[1], org[4][2] * org[3] >> >>
                      /\ UNCHANGED <<g, org>>
EulerToMat(route) == rep = "euler" /\ rep' = "mat" /\ pay' = << M(SeqQuat(pay[1], pay[2])), Norm2(SeqQuat(pay[1], pay[2])) >>
                     /\ UNCHANGED <<g, org>>
(* integer powers (32-bit: only for registers with small components; once per behaviour) *)
SmallQ(p)   == Norm2(p) <= 400
PowerOf(k)  == rep = "quat" /\ SmallQ(pay) /\ rep' = "quatpow" /\ pay' = PowQ(pay, k) /\ g' = PowQ(g, k) /\ UNCHANGED org

Next == \/ \E r \in RpyRoutes : RpyToQuat(r)
        \/ \E r \in AngRoutes : QuatToRpy(r)
        \/ \E r \in AxqRoutes : AxangToQuat(r)
        \/ \E r \in QaxRoutes : QuatToAxang(r)
        \/ Negate
        \/ \E r \in MatRoutes : EulerToMat(r)
        \/ \E k \in Exponents : PowerOf(k)
Spec == Init /\ [][Next]_vars

(* ------------------------------- invariants ------------------------------- *)
(* the register always denotes the ghost rotation *)
Denotes ==
    CASE rep \in {"quat", "quatpow"} -> SameRay4(pay, g)
      [] rep = "mat"    -> pay[1] = M(g) /\ pay[2] = Norm2(g)
      [] rep = "angles" -> /\ RollOf(g) = pay[1] /\ SinPitch(g) = pay[2] /\ YawOf(g) = pay[3]
      [] rep = "axang2" -> SameDir3(pay[1], Vec(g)) \/ IsZero3(Vec(g))
      [] rep = "quatneg" -> SameRay4(NegQ(pay), g)
      [] rep = "axang2neg" -> SameDir3(pay[1], Vec(NegQ(g))) \/ IsZero3(Vec(g))
      [] OTHER -> TRUE
(* round trips: angles -> quaternion -> angles gives the angles back (|pitch| < 90 deg) *)
RpyRoundTrip == (rep = "angles" /\ org[1] = "rpy") =>
                   /\ SameAngle(pay[1], Double(org[2]))
                   /\ SameAngle(pay[3], Double(org[4]))
                   /\ LET d == Double(org[3]) n2 == org[3][1]*org[3][1] + org[3][2]*org[3][2]
                      IN  pay[2][1] * n2 = d[2] * pay[2][2]              \* sin(pitch) exact
(* axis-angle -> quaternion -> axis-angle: same axis, same angle *)
AxangRoundTrip == (rep = "axang2" /\ org[1] = "axang") =>
                   /\ SameDir3(pay[1], org[2])
                   /\ SameAngle(pay[2], org[4])
(* whichever representative was read, the (axis, half-angle) pair reassembles to the same rotation:        *)
(* (cos, sin * axis/|axis|) scaled by |axis| = |v| is collinear with the ghost -- with BOTH components signed *)
AxangSameRotation == (rep \in {"axang2", "axang2neg"}) =>
                   LET c == pay[2][1] sn == pay[2][2] a == pay[1]
                   IN  Collinear4(<< c * sn, sn * a[1], sn * a[2], sn * a[3] >>, g)
(* and reading -q never yields the angle of q about the opposite axis (that is the inverse rotation) *)
NegativeReadsTheLongWay == (rep = "axang2neg" /\ ~IsZero3(Vec(g))) => pay[2][1] * g[1] <= 0
(* powers: q^0 = 1, q^1 = q, q^j q^k = q^(j+k) (checked on the ghost for all offered exponents) *)
PowerLaws == (rep = "quat" /\ SmallQ(pay)) =>
                /\ PowQ(pay, 0) = One /\ PowQ(pay, 1) = pay
                /\ \A j, k \in Exponents : (j + k \in Exponents) =>
                       ScaleQ(1, Mul(PowQ(pay, j), PowQ(pay, k))) = PowQ(pay, j + k) \/ j * k < 0
                /\ \A j, k \in Exponents : (j * k < 0 /\ j + k \in Exponents) =>
                       Collinear4(Mul(PowQ(pay, j), PowQ(pay, k)), PowQ(pay, j + k))
(* matrix of an Euler sequence = ordered product of the elementary matrices *)
EulerProduct == (rep = "mat" /\ org[1] = "euler") =>
                   LET s == org[2] hs == org[3]
                       E(i) == M(Elem(s[i], hs[i]))
                       P == IF Len(s) = 1 THEN E(1)
                            ELSE IF Len(s) = 2 THEN MatMul(E(1), E(2)) ELSE MatMul(MatMul(E(1), E(2)), E(3))
                   IN  pay[1] = P
=============================================================================
