--------------------------- MODULE TraceSensorWorld ---------------------------
(* Trace validation for SensorWorld.  One trace = one estimator call: the logged       *)
(* convention (looked up by route in the table), the integer measurement vectors the   *)
(* sensor reported, and the abstracted output (alpha: the integer quaternion whose      *)
(* exact matrix the returned rotation equals).  The ghost attitude is not observable:  *)
(* TLC must find one -- it is bound to the returned attitude, and the Measure step then *)
(* has to reproduce the logged measurements; Recovers is evaluated in integers.        *)
EXTENDS SensorWorld
Traces == ndJsonDeserialize(IOEnv.TRACE_FILE)
VARIABLES tid, l
tvars == <<vars, tid, l>>
ASSUME TLCSet(1, [t \in 1..Len(Traces) |-> 0])
Empty == {}
T3(s) == << s[1], s[2], s[3] >>
T4(s) == << s[1], s[2], s[3], s[4] >>
TraceInit == /\ tid \in 1..Len(Traces) /\ l = 1
             /\ u = T4(Traces[tid].out) /\ dip = << Traces[tid].dip[1], Traces[tid].dip[2] >>
             /\ conv = << T3(Traces[tid].g), Traces[tid].form, Traces[tid].type >>
             /\ acc = <<0,0,0>> /\ mag = <<0,0,0>> /\ out = <<0,0,0,0>> /\ phase = "posed"
TMeasure == /\ l = 1 /\ l' = 2 /\ UNCHANGED tid
            /\ \E k1, k2 \in 1..1 : Measure(<<k1, k2>>)
            /\ SameDir3(acc', T3(Traces[tid].acc)) /\ SameDir3(mag', T3(Traces[tid].mag))
TEstimate == /\ l = 2 /\ l' = 3 /\ UNCHANGED tid
             /\ Estimate /\ out' = T4(Traces[tid].out)
TraceNext == TMeasure \/ TEstimate
TraceSpec == TraceInit /\ [][TraceNext]_tvars
(* a state that violates an invariant is pruned and does not count as progress (an INVARIANT in the cfg would stop
   the whole batch at the first violation; priming the invariants into the actions is an order of magnitude slower) *)
TraceInv == WellPosed /\ Recovers
Progress == TraceInv /\ (LET f == TLCGet(1) IN IF f[tid] < l THEN TLCSet(1, [f EXCEPT ![tid] = l]) ELSE TRUE)
Accepted == LET f == TLCGet(1) IN
            \A t \in 1..Len(Traces) : \/ f[t] = 3
                                      \/ PrintT(<<"REJECTED", t, f[t]>>) /\ FALSE
=============================================================================
