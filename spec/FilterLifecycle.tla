---------------------------- MODULE FilterLifecycle ----------------------------
(* The life of attitude-estimator objects (C03, C06, C13).                          *)
(*                                                                                  *)
(* A configuration says which class, which sensor architecture, local frame, output *)
(* representation, gain class and sampling-rate class an instance is built with; the *)
(* catalogue Accepts is transcribed from the constructors.  An instance consumes a   *)
(* history of samples (abstract sample ids, each possibly carrying a FAULT: a zeroed *)
(* accelerometer / magnetometer / gyroscope reading) either in one batch call or one *)
(* update at a time.  Its abstract state is (cfg, q0, consumed history): everything  *)
(* observable must be a function of that -- this is what the conformance harness     *)
(* checks on the real objects -- and the per-sample outcome is Ok, Skipped (correction*)
(* omitted), Rejected (ValueError; the run stops) and never Poisoned.                *)
EXTENDS FilterCatalogue, TLC, Json, IOUtils, SequencesExt

(* --------------------------------- machine --------------------------------- *)
CONSTANTS Insts, SampleIds, MaxLen, CfgSet, FaultSet
VARIABLES cfg, hist, outs, how, dead
vars == <<cfg, hist, outs, how, dead>>
NoCfg == [f |-> "none"]

Init == /\ cfg = [i \in Insts |-> NoCfg] /\ hist = [i \in Insts |-> << >>]
        /\ outs = [i \in Insts |-> << >>] /\ how = [i \in Insts |-> "none"] /\ dead = [i \in Insts |-> FALSE]

Samples == SampleIds \X FaultSet
(* construct over a recorded history: one outcome per sample *)
Batch(i, c, h) == /\ how[i] = "none" /\ Len(h) >= 2 /\ Len(h) <= MaxLen /\ h[1][2] = "ok"
                  /\ \E o \in [1..Len(h) -> {"Ok", "Skipped", "Rejected"}] :
                        /\ \A k \in 1..Len(h) : o[k] \in AllowedOutcomes(c, h[k][2])
                        /\ outs' = [outs EXCEPT ![i] = [k \in 1..Len(h) |-> o[k]]]
                  /\ cfg' = [cfg EXCEPT ![i] = c] /\ hist' = [hist EXCEPT ![i] = h]
                  /\ how' = [how EXCEPT ![i] = "batch"] /\ UNCHANGED dead
(* create without data and take the initial attitude a batch run derives from its first   *)
(* sample s0 (the given q0 where the class honours one): row 1 of a batch run IS that      *)
(* initial attitude, the first update consumes the second sample                           *)
Create(i, c, s0) == /\ how[i] = "none" /\ Streams(c) /\ s0[2] = "ok"
                    /\ cfg' = [cfg EXCEPT ![i] = c] /\ how' = [how EXCEPT ![i] = "stream"]
                    /\ hist' = [hist EXCEPT ![i] = << s0 >>] /\ outs' = [outs EXCEPT ![i] = << "Ok" >>]
                    /\ UNCHANGED dead
Update(i, s)   == /\ how[i] = "stream" /\ ~dead[i] /\ Len(hist[i]) < MaxLen
                  /\ \E o \in AllowedOutcomes(cfg[i], s[2]) :
                        /\ outs' = [outs EXCEPT ![i] = Append(@, o)]
                        /\ dead' = [dead EXCEPT ![i] = (o = "Rejected")]
                  /\ hist' = [hist EXCEPT ![i] = Append(@, s)]
                  /\ UNCHANGED <<cfg, how>>
Next == \E i \in Insts :
           \/ \E c \in CfgSet : \E s0 \in Samples : Create(i, c, s0)
           \/ \E s \in Samples : Update(i, s)
           \/ \E c \in CfgSet : \E n \in 2..MaxLen : \E h \in [1..n -> Samples] : Batch(i, c, h)
Spec == Init /\ [][Next]_vars

(* ------------------------------- invariants ------------------------------- *)
(* C03: exactly one outcome (one attitude row) per consumed sample *)
OneRowPerSample == \A i \in Insts : Len(outs[i]) = Len(hist[i])
(* C13: a fault-free sample is never skipped or rejected; nothing is ever poisoned *)
FaultFreeIsOk   == \A i \in Insts : \A k \in 1..Len(hist[i]) : hist[i][k][2] = "ok" => outs[i][k] = "Ok"
(* C06: isolation -- an action on one instance leaves every other instance alone *)
Isolation == [][ \A i, j \in Insts : (i # j /\ hist'[i] # hist[i]) => (hist'[j] = hist[j] /\ outs'[j] = outs[j] /\ cfg'[j] = cfg[j]) ]_vars
(* C06: batch and streaming reach the same abstract state: equal (cfg, history) => equal outcomes *)
SameAbstractState(i, j) == cfg[i] = cfg[j] /\ hist[i] = hist[j] /\ cfg[i] # NoCfg
(* ... and then they have produced the same outcomes, whichever way each got there *)
BatchEqualsStream == \A i, j \in Insts : (SameAbstractState(i, j) /\ FaultSet = {"ok"}) => outs[i] = outs[j]
(* drop an instance (the harness deletes the object): the slot can be reused *)
Drop(i) == /\ how[i] # "none" /\ cfg' = [cfg EXCEPT ![i] = NoCfg] /\ hist' = [hist EXCEPT ![i] = << >>]
           /\ outs' = [outs EXCEPT ![i] = << >>] /\ how' = [how EXCEPT ![i] = "none"] /\ dead' = [dead EXCEPT ![i] = FALSE]
NextD == Next \/ \E i \in Insts : Drop(i)
SpecD == Init /\ [][NextD]_vars
=============================================================================
