--------------------------- MODULE TraceConvergence ---------------------------
(* one trace = one run of a real filter from a given initial error: header (init, tol, *)
(* budget in observations), then the observed errors                                  *)
EXTENDS ConvergenceMonitor
Traces == ndJsonDeserialize(IOEnv.TRACE_FILE)
VARIABLES tid, l
tvars == <<vars, tid, l>>
ASSUME TLCSet(1, [t \in 1..Len(Traces) |-> 0])
TraceInit == /\ tid \in 1..Len(Traces) /\ l = 1
             /\ init = Traces[tid].init /\ tol = Traces[tid].tol /\ budget = Traces[tid].budget
             /\ k = 0 /\ err = Traces[tid].init /\ phase = "converging"
TObserve == /\ l <= Len(Traces[tid].errs) /\ l' = l + 1 /\ UNCHANGED tid
            /\ Observe(Traces[tid].errs[l])
TraceSpec == TraceInit /\ [][TObserve]_tvars
Progress == LET f == TLCGet(1) IN IF f[tid] < l THEN TLCSet(1, [f EXCEPT ![tid] = l]) ELSE TRUE
Accepted == LET f == TLCGet(1) IN
            \A t \in 1..Len(Traces) : \/ f[t] = Len(Traces[t].errs) + 1
                                      \/ PrintT(<<"REJECTED", t, f[t]>>) /\ FALSE
=============================================================================
