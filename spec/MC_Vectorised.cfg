SPECIFICATION Spec
CONSTANTS
  Pairs <- TwinPairs
  Classes <- RowClasses
INVARIANT OneResultPerRow
INVARIANT RowLocal
POSTCONDITION EmitAll
