------------------------------ MODULE CallerMemory ------------------------------
(* C19: the caller owns buffers (arrays); a public call reads some of them and returns *)
(* a result.  Abstractly a buffer is an id with a CONTENT id (the harness uses the      *)
(* SHA-1 of dtype, shape and bytes).  The property: a call never changes the content    *)
(* of a caller buffer (unless it is an explicitly requested in-place operation), and    *)
(* the result is a function of (callable, contents of the arguments): calling again     *)
(* with the same contents gives the same result.                                        *)
EXTENDS Integers, Sequences, FiniteSets, TLC, Json, IOUtils, SequencesExt

CONSTANTS Bufs, Contents, Funs, Results
VARIABLES mem,        \* Bufs -> Contents
          memo,       \* what each (callable, argument contents) returned the first time
          last        \* the last call, for the invariants
vars == <<mem, memo, last>>
None == "none"
(* the array a result lives in has a content like any buffer (a fixed, arbitrary assignment in the model) *)
ResultContent(r) == CHOOSE c \in Contents : TRUE

Init == mem \in [Bufs -> Contents] /\ memo = << >> /\ last = [f |-> None]
Key(f, args) == << f, [i \in 1..Len(args) |-> mem[args[i]]] >>
Known(k) == \E i \in 1..Len(memo) : memo[i][1] = k
ResultOf(k) == (CHOOSE i \in 1..Len(memo) : memo[i][1] = k)
(* a well-behaved call: memory untouched, result determined by the contents *)
Call(f, args, res) ==
    LET k == Key(f, args) IN
    /\ (Known(k) => memo[ResultOf(k)][2] = res)
    /\ memo' = IF Known(k) THEN memo ELSE Append(memo, << k, res >>)
    /\ mem' = mem
    /\ last' = [f |-> f, args |-> args, res |-> res]
(* the caller itself may of course write to its buffers between calls *)
CallerWrites(b, c) == mem' = [mem EXCEPT ![b] = c] /\ UNCHANGED <<memo, last>>
(* ... in particular it may keep what a call returned and hand it to the next call (the streaming use of the recursive filters:   *)
(* q1 = f.update(q0, ...); q2 = f.update(q1, ...)).  The returned array is a caller buffer from then on: the next call reads it  *)
(* and must leave it alone like any other argument.  ResultContent maps a result to the content id of the array that carries it. *)
KeepResult(b) == /\ last.f # None
                 /\ mem' = [mem EXCEPT ![b] = ResultContent(last.res)]
                 /\ UNCHANGED <<memo, last>>
Next == \/ \E f \in Funs, n \in 1..2 : \E args \in [1..n -> Bufs] : \E r \in Results : Call(f, args, r)
        \/ \E b \in Bufs, c \in Contents : CallerWrites(b, c)
        \/ \E b \in Bufs : KeepResult(b)
Spec == Init /\ [][Next]_vars

(* results are a function of (callable, contents) *)
Repeatable == \A i, j \in 1..Len(memo) : memo[i][1] = memo[j][1] => memo[i][2] = memo[j][2]
(* calls never write: only the caller's own writes change mem (action property) *)
CallsDoNotWrite == [][ last' # last => mem' = mem ]_vars
=============================================================================
