----------------------------- MODULE SensorWorld -----------------------------
(* C04 (and the measurement side of C03 / C05 / C20): a sensor at attitude u    *)
(* (ghost, integer quaternion) observes two reference directions -- gravity g   *)
(* and the magnetic field h(dip) -- and an estimator must return u.             *)
(* Every estimator route documents ITS reference pair and ITS direction:        *)
(*   type "A":  R(out) . ref  = meas      (out maps references onto measurements)*)
(*   type "B":  R(out) . meas = ref       (out maps measurements onto references)*)
(* The convention table below is data of the specification; the harness looks   *)
(* every route up here and nowhere else.                                        *)
EXTENDS Grids, TLC, Json, IOUtils, SequencesExt

(* magnetic reference for dip pair d = <<c, s>> (cos, sin of the dip, up to a positive factor) *)
HRef(form, d) == CASE form = "c0s"  -> << d[1], 0, d[2] >>
                   [] form = "c0-s" -> << d[1], 0, -d[2] >>
                   [] form = "s0c"  -> << d[2], 0, d[1] >>
                   [] form = "0c-s" -> << 0, d[1], -d[2] >>
                   [] form = "0cs"  -> << 0, d[1], d[2] >>
                   [] form = "decl" -> << 3*d[1], 4*d[1], 5*d[2] >>     \* same dip, declination atan(4/3)

(* convention key = <<gravity reference, magnetic form, type>> *)
Conventions == {
    << <<0,0,1>>,  "c0s",  "A" >>,      \* TRIAD (v1, v2 given), SAAM, AQUA
    << <<0,0,-1>>, "0c-s", "A" >>,      \* TRIAD ENU defaults
    << <<0,0,1>>,  "c0s",  "B" >>,      \* Davenport, QUEST, FAMC, Tilt, acc2q, ecompass NED
    << <<0,0,1>>,  "c0-s", "B" >>,      \* FLAE
    << <<0,0,-1>>, "s0c",  "B" >>,      \* OLEQ / ROLEQ NED (sic)
    << <<0,0,1>>,  "0c-s", "B" >>,      \* OLEQ / ROLEQ ENU
    << <<0,0,-1>>, "c0s",  "B" >>,      \* FQA
    << <<0,0,1>>,  "0cs",  "B" >>,      \* ecompass ENU
    << <<0,0,-1>>, "c0s",  "A" >>,      \* am2DCM NED
    << <<0,0,1>>,  "0cs",  "A" >>,      \* am2DCM ENU
    << <<0,0,-1>>, "c0s",  "Bq" >>,     \* am2q NED  (quaternion of the transpose)
    << <<0,0,1>>,  "0cs",  "Bq" >>,     \* am2q ENU
    (* estimators that take the magnetic reference as a vector: a reference with an East component *)
    << <<0,0,1>>,  "decl", "A" >>,      \* TRIAD(v2 = vector)
    << <<0,0,1>>,  "decl", "B" >>,      \* QUEST(magnetic_dip = vector)
    << <<0,0,-1>>, "decl", "B" >>,      \* OLEQ(magnetic_ref = vector), FQA(mag_ref = vector)
    << <<0,0,-1>>, "0cs",  "B" >> }     \* FQA(mag_ref pointing East)

CONSTANTS Attitudes, Dips, Scales
VARIABLES u, dip, conv, acc, mag, out, phase
vars == <<u, dip, conv, acc, mag, out, phase>>

Meas(cv, uu, ref) == IF cv[3] = "A" THEN MatVec(M(uu), ref) ELSE MatVec(Transpose(M(uu)), ref)

(* the property quantifies over NON-COLLINEAR reference pairs: OLEQ's (sin d, 0, cos d) at dip 0 *)
(* is vertical, i.e. parallel to gravity -- TLC's first counterexample to WellPosed            *)
RefsOK(cv, d) == ~IsZero3(Cross3(cv[1], HRef(cv[2], d)))
Init == /\ u \in Attitudes /\ dip \in Dips /\ conv \in Conventions /\ RefsOK(conv, dip)
        /\ acc = <<0,0,0>> /\ mag = <<0,0,0>> /\ out = <<0,0,0,0>> /\ phase = "posed"
(* the sensor reports positively scaled images of the references *)
Measure(sc) == /\ phase = "posed"
               /\ acc' = Scale3(sc[1], Meas(conv, u, conv[1]))
               /\ mag' = Scale3(sc[2], Meas(conv, u, HRef(conv[2], dip)))
               /\ phase' = "measured" /\ UNCHANGED <<u, dip, conv, out>>
(* the estimator returns the attitude (either sign of the quaternion) *)
Estimate == /\ phase = "measured" /\ out' \in {u, NegQ(u)} /\ phase' = "estimated"
            /\ UNCHANGED <<u, dip, conv, acc, mag>>
Next == (\E sc \in Scales : Measure(sc)) \/ Estimate
Spec == Init /\ [][Next]_vars

(* --------------------------------- invariants --------------------------------- *)
(* the measurements are never parallel (the references are not) and never null *)
WellPosed == phase # "posed" => ~IsZero3(acc) /\ ~IsZero3(mag) /\ ~IsZero3(Cross3(acc, mag))
(* C04: the returned rotation maps references and measurements onto each other in the *)
(* direction the route documents, whatever the scaling                                 *)
Recovers == phase = "estimated" =>
              LET g == conv[1] h == HRef(conv[2], dip) IN
              IF conv[3] = "A"
              THEN SameDir3(MatVec(M(out), g), acc) /\ SameDir3(MatVec(M(out), h), mag)
              ELSE SameDir3(MatVec(M(out), acc), g) /\ SameDir3(MatVec(M(out), mag), h)

(* the property's "general position" predicate for the closed-form class, in integers:       *)
(* every component >= 0.05 in magnitude (which also bounds the angle by pi - 0.1), sensor      *)
(* z-axis at least 3.6 degrees from vertical, x-axis not vertical (both readings of "sensor    *)
(* axis": the axis images under R and under R^T)                                               *)
GeneralPosition(q) ==
    LET N == Norm2(q) Mq == M(q) IN
    /\ \A i \in 1..4 : 400 * q[i] * q[i] >= N
    /\ 1000 * Abs(Mq[3][3]) <= 998 * N
    /\ 1000 * Abs(Mq[3][1]) <= 998 * N /\ 1000 * Abs(Mq[1][3]) <= 998 * N
=============================================================================
