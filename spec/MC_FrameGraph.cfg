SPECIFICATION Spec
CONSTANTS
  MaxLen = 4
INVARIANT TypeOK
INVARIANT Isometry
INVARIANT OriginToZero
POSTCONDITION EmitAll
