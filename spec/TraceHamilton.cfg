SPECIFICATION TraceSpec
CONSTANTS
  Gen <- Empty
  Start <- Empty
  MulRoutes <- AllMulRoutes
  ConjRoutes <- AllConjRoutes
  MaxDepth = 1000000
  Deviations <- @DEVIATIONS@
CONSTRAINT Progress
POSTCONDITION Accepted
CHECK_DEADLOCK FALSE
