------------------------------ MODULE WmmSession ------------------------------
(* C15: one WMM object over its life.  Abstract state: which coefficient file is      *)
(* loaded, how many times the loaded coefficient table has been Schmidt-scaled since   *)
(* it was loaded (the implementation scales IN PLACE on every evaluation: a correct     *)
(* evaluation needs exactly one scaling of a freshly loaded table), the object's         *)
(* current date, and the identity of the answer its elements currently hold.            *)
(* An answer is identified by (date, place, frame): the property says the elements      *)
(* served are always the answer of the query just made, whatever came before.           *)
(* Deviations: named as-built behaviours (open known findings); {} = the ideal object.  *)
EXTENDS Integers, Sequences, FiniteSets, TLC, Json, IOUtils, SequencesExt

CONSTANTS Dates, Places, Frames, Deviations, MaxOps
None == "None"           \* date=None: keep the object's date
Omitted == "omitted"     \* the date argument left out of a query: the documented default is today
Today == "today"
ModelOf(d) == d            \* each abstract date stands for one model epoch (dates are chosen one per file, plus today)

VARIABLES objdate,    \* date the object currently stands at ("none" before construction)
          frame,      \* frame chosen at construction
          loaded,     \* date whose coefficient file is in memory
          scaled,     \* how often that table has been scaled in place
          served,     \* <<date, place, frame>> of the answer the elements hold, or <<"nothing">>
          want,       \* ... of the answer the last call asked for
          ops
vars == <<objdate, frame, loaded, scaled, served, want, ops>>

Nothing == << "nothing" >>
Init == objdate = "none" /\ frame = "none" /\ loaded = "none" /\ scaled = 0 /\ served = Nothing /\ want = Nothing /\ ops = 0

Resolve(d, cur) == IF d = None THEN cur ELSE IF d = Omitted THEN Today ELSE d
(* evaluation of the field at place p for the object's date: reload (scaled := 0) then scale once *)
Evaluate(d, p, f, reload) ==
    /\ loaded' = IF reload THEN d ELSE loaded
    /\ scaled' = (IF reload THEN 0 ELSE scaled) + 1
    /\ served' = IF (IF reload THEN 0 ELSE scaled) = 0 /\ (IF reload THEN d ELSE loaded) = d
                 THEN << d, p, f >> ELSE << "garbage", p, f >>

Construct(d, p, f) ==
    /\ objdate = "none"
    /\ LET dd == Resolve(d, Today) IN
       /\ objdate' = dd /\ frame' = f /\ want' = << dd, p, f >>
       /\ IF "ctor_skips_zero_lat_lon" \in Deviations /\ p \in {"lat0", "lon0"}
          THEN loaded' = dd /\ scaled' = 0 /\ served' = Nothing
          ELSE Evaluate(dd, p, f, TRUE)
    /\ ops' = ops + 1

Query(d, p) ==
    /\ objdate # "none"
    /\ LET dd == Resolve(d, objdate)
           reload == ~("rescale_on_date_none" \in Deviations /\ d = None)
       IN  /\ objdate' = dd /\ want' = << dd, p, frame >>
           /\ Evaluate(dd, p, frame, reload)
    /\ UNCHANGED frame /\ ops' = ops + 1

Read == objdate # "none" /\ UNCHANGED <<objdate, frame, loaded, scaled, served, want>> /\ ops' = ops + 1

Next == \/ \E d \in Dates \cup {None}, p \in Places, f \in Frames : Construct(d, p, f)
        \/ \E d \in Dates \cup {None, Omitted}, p \in Places : Query(d, p)
        \/ Read
Spec == Init /\ [][Next]_vars
Bound == ops < MaxOps

(* the elements always hold the answer of the last query *)
ServesWhatWasAsked == served = want
(* a table is never scaled twice *)
ScaledOnce == scaled <= 1
=============================================================================
