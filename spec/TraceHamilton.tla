---------------------------- MODULE TraceHamilton ----------------------------
(* Trace validation for HamiltonAlgebra: events recorded from real, non-versor *)
(* Quaternion objects with integer-valued components (so the floats are exact  *)
(* and alpha is the identity).                                                 *)
(* Deviations = identifiers of the open known findings (as-built model).       *)
EXTENDS HamiltonAlgebra

CONSTANT Deviations
Traces == ndJsonDeserialize(IOEnv.TRACE_FILE)
VARIABLES tid, l
tvars == <<vars, tid, l>>
ASSUME TLCSet(1, [t \in 1..Len(Traces) |-> 0])
Empty == {}
NoDeviation == {}
InverseDividesByNorm == {"inverse_divides_by_norm"}
Tup4(s) == << s[1], s[2], s[3], s[4] >>

TraceInit == /\ tid \in 1..Len(Traces) /\ l = 1
             /\ num = Tup4(Traces[tid].start) /\ den = 1 /\ ord = Traces[tid].ord /\ depth = 0
Ev == Traces[tid].events[l]
IsEvent(name) == l <= Len(Traces[tid].events) /\ Ev.act = name /\ l' = l + 1 /\ UNCHANGED tid
(* the logged register is compared as a rational quaternion (the log is not reduced) *)
Logged == /\ ScaleQ(Ev.den, num') = ScaleQ(den', Tup4(Ev.num))
          /\ ord' = Ev.ord

TMulRight == IsEvent("MulRight") /\ MulRight(Ev.route, Tup4(Ev.v)) /\ Logged
TMulLeft  == IsEvent("MulLeft")  /\ MulLeft(Ev.route, Tup4(Ev.v))  /\ Logged
TConj     == IsEvent("Conjugate") /\ Conjugate(Ev.route) /\ Logged
TInvert   == IsEvent("Invert") /\ Invert /\ Logged
TRestore  == IsEvent("Restore") /\ Restore /\ Logged
TObserve  == IsEvent("Observe") /\ Observe /\ Logged
(* as-built: the code divides the conjugate by the norm instead of its square; only *)
(* logged for registers whose norm is an integer s (Ev.s), so the result is rational *)
TInvertAsBuilt == /\ "inverse_divides_by_norm" \in Deviations
                  /\ IsEvent("Invert")
                  /\ Ev.s * Ev.s * den * den = Norm2(num)      \* |num/den| = s
                  /\ LET r == Red(Conj(num), den * Ev.s) IN num' = r[1] /\ den' = r[2]
                  /\ UNCHANGED ord /\ depth' = depth + 1
                  /\ Logged

TDerive   == IsEvent("Derive") /\ Derive(Ev.route) /\ Logged
TNormalize == IsEvent("Normalize") /\ Normalize /\ Logged
TOverwrite == IsEvent("Overwrite") /\ Overwrite(Tup4(Ev.v)) /\ Logged
TraceNext == TOverwrite \/ TDerive \/ TNormalize \/ TMulRight \/ TMulLeft \/ TConj \/ TInvert \/ TInvertAsBuilt \/ TRestore \/ TObserve
TraceSpec == TraceInit /\ [][TraceNext]_tvars
(* a state that violates an invariant is pruned and does not count as progress (an INVARIANT in the cfg would stop
   the whole batch at the first violation; priming the invariants into the actions is an order of magnitude slower) *)
TraceInv == NonZero
Progress == TraceInv /\ (LET f == TLCGet(1) IN IF f[tid] < l THEN TLCSet(1, [f EXCEPT ![tid] = l]) ELSE TRUE)
Accepted == LET f == TLCGet(1) IN
            \A t \in 1..Len(Traces) : \/ f[t] = Len(Traces[t].events) + 1
                                      \/ PrintT(<<"REJECTED", t, f[t]>>) /\ FALSE
=============================================================================
