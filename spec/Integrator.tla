------------------------------ MODULE Integrator ------------------------------
(* C08: gyroscope integration.                                                      *)
(* A constant rate over one step is the rotation r = (cos(t/2), sin(t/2) n): taken   *)
(* from an integer quaternion u (r = u/|u|, the rate is 2 atan2(|vec u|, u_w)/dt n).  *)
(* Closed form:    q_{k+1} = q_k * r              => q_k = q_0 * r^k  (exactly)       *)
(* First order:    q' = q + (1/2) q * (0, w) dt   (what Madgwick / Mahony / EKF / ROLEQ *)
(*                 do when only the gyroscope speaks; AQUA in the conjugate convention) *)
(* Series order K: A_K q = sum_{i<=K} Theta^i/i! q with Theta = right-multiplication by *)
(*                 (0, w dt/2);  Theta^2 = -t^2 I  so  A_K = c_K I + s_K Theta with     *)
(*                 rational c_K, s_K when t^2 is rational.                              *)
(* Half-rates are given as <<w, d>>:  w dt / 2 = w/d  (w integer 3-vector).             *)
EXTENDS Grids, TLC, Json, IOUtils, SequencesExt

CONSTANTS Starts, StepQuats, HalfRates, MaxK
VARIABLES q0, u, q, k
vars == <<q0, u, q, k>>

Init == q0 \in Starts /\ u \in StepQuats /\ q = q0 /\ k = 0
Step == k < MaxK /\ q' = PrimQ(Mul(q, u)) /\ k' = k + 1 /\ UNCHANGED <<q0, u>>
Spec == Init /\ [][Step]_vars

(* exact for any number of steps: the state is the start composed with the k-th power *)
ClosedFormExact == SameRay4(q, Mul(q0, PowQ(u, k))) \/ Collinear4(q, Mul(q0, PowQ(u, k)))
(* (in the finite group the power is reduced; the state must be one of the group's elements on the orbit of u) *)
ViewNoK == <<q0, u, q>>
ClosedFormExactGroup == \E n \in 0..8 : Collinear4(q, Mul(q0, PowQ(u, n)))
(* ... hence n steps of dt equal one step of n dt (the k-th power is the rotation by k times the angle) *)
Semigroup == \A a, b \in 0..3 : Mul(PowQ(u, a), PowQ(u, b)) = PowQ(u, a + b)

(* ------------------------------ first-order step ------------------------------ *)
(* (these laws are evaluated at the start register q0: 32-bit room) *)
FirstOrder(p, w, d)     == AddQ(ScaleQ(d, p), Mul(p, Pure(w)))
FirstOrderConj(p, w, d) == AddQ(ScaleQ(d, p), NegQ(Mul(Pure(w), p)))
ConventionsAgree == \A h \in HalfRates : Conj(FirstOrderConj(Conj(q0), h[1], h[2])) = FirstOrder(q0, h[1], h[2])

(* --------------------------------- series --------------------------------- *)
Fact(n) == CASE n = 0 -> 1 [] n = 1 -> 1 [] n = 2 -> 2 [] n = 3 -> 6 [] n = 4 -> 24 [] n = 5 -> 120 [] n = 6 -> 720
Pow(b, e) == CASE e = 0 -> 1 [] e = 1 -> b [] e = 2 -> b*b [] e = 3 -> b*b*b
(* with t^2 = n2/d2 and D = 720 d2^3:  C(K) = D c_K,  S(K) = D s_K  (integers) *)
TermC(j, n2, d2) == (IF j % 2 = 0 THEN 1 ELSE -1) * Pow(n2, j) * Pow(d2, 3 - j) * (720 \div Fact(2*j))
TermS(j, n2, d2) == (IF j % 2 = 0 THEN 1 ELSE -1) * Pow(n2, j) * Pow(d2, 3 - j) * (720 \div Fact(2*j + 1))
RECURSIVE SumC(_, _, _), SumS(_, _, _)
SumC(j, n2, d2) == IF j < 0 THEN 0 ELSE TermC(j, n2, d2) + SumC(j - 1, n2, d2)
SumS(j, n2, d2) == IF j < 0 THEN 0 ELSE TermS(j, n2, d2) + SumS(j - 1, n2, d2)
CK(K, n2, d2) == SumC(K \div 2, n2, d2)
SK(K, n2, d2) == IF K = 0 THEN 0 ELSE SumS((K - 1) \div 2, n2, d2)
(* A_K p, as an integer 4-vector over the denominator 720 d2^3 d *)
Series(K, p, w, d) == LET n2 == Dot3(w, w) d2 == d * d IN
                      AddQ(ScaleQ(CK(K, n2, d2) * d, p), ScaleQ(SK(K, n2, d2), Mul(p, Pure(w))))
(* Theta^2 = -t^2 I :  (p * (0,w)) * (0,w) = -|w|^2 p *)
ThetaSquared == \A h \in HalfRates : Mul(Mul(q0, Pure(h[1])), Pure(h[1])) = ScaleQ(-Dot3(h[1], h[1]), q0)
(* order 1 of the series is the first-order step; order 0 leaves q alone *)
SeriesLowOrders == \A h \in HalfRates : /\ Collinear4(Series(1, q0, h[1], h[2]), FirstOrder(q0, h[1], h[2]))
                                        /\ Collinear4(Series(0, q0, h[1], h[2]), q0)
=============================================================================
