SPECIFICATION Spec
CONSTANTS
  MaxN = 6
  Lats <- LS
INVARIANT AlgorithmIsDefinition
INVARIANT DerivativeIsColatitude
POSTCONDITION EmitAll
