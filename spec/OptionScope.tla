----------------------------- MODULE OptionScope -----------------------------
(* Options (keyword arguments a callable has defaults for) belong to the call they are given to.          *)
(* A callable has its defaults; a call is made either plainly or with an option set; the values the call  *)
(* works with are the defaults overridden by the given options -- for that call only.  Nothing a call is   *)
(* given survives it: not in the callable (module-level tables, default-argument objects), not in the      *)
(* class, not in the process.  Hence a plain call answers the same wherever it stands in a schedule.       *)
(* (StepSource is the instance of this for the option dt of the recursive filters' update methods, where   *)
(* the defaults live in the object.)                                                                        *)
EXTENDS Naturals, Sequences, FiniteSets, TLC, Json, IOUtils, SequencesExt

CONSTANTS OptionSets,    \* the option sets a call may be given; "plain" stands for none
          MaxCalls
VARIABLES defaults,      \* what the callable falls back to: fixed at definition time
          calls,         \* the schedule so far
          used           \* per call: the option set it worked with
vars == <<defaults, calls, used>>

Init == defaults = "defaults" /\ calls = <<>> /\ used = <<>>
Call(o) == /\ Len(calls) < MaxCalls
           /\ calls' = Append(calls, o)
           /\ used'  = Append(used, IF o = "plain" THEN defaults ELSE o)
           /\ UNCHANGED defaults
Next == \E o \in OptionSets \cup {"plain"} : Call(o)
Spec == Init /\ [][Next]_vars

DefaultsNeverMove == [][defaults' = defaults]_vars
PlainIsPlain  == \A i \in DOMAIN calls : calls[i] = "plain" => used[i] = "defaults"
GivenIsUsed   == \A i \in DOMAIN calls : calls[i] # "plain" => used[i] = calls[i]
PositionBlind == \A i, j \in DOMAIN calls : calls[i] = calls[j] => used[i] = used[j]

(* the schedules replayed on the real callables: every schedule of the bounded machine that contains a plain call *)
RECURSIVE SeqsUpTo(_)
SeqsUpTo(n) == IF n = 0 THEN {<<>>} ELSE LET S == SeqsUpTo(n - 1) IN
               S \cup { Append(s, o) : s \in { x \in S : Len(x) = n - 1 }, o \in OptionSets \cup {"plain"} }
Schedules == { s \in SeqsUpTo(MaxCalls) : \E i \in DOMAIN s : s[i] = "plain" }
EmitSchedules == ndJsonSerialize(IOEnv.OUT_FILE, SetToSeq({ [kind |-> "option-schedule", calls |-> s] : s \in Schedules })) /\ (TRUE \/ calls = <<>>)
=============================================================================
