----------------------------- MODULE SlerpArray -----------------------------
(* C12: a quaternion array whose rows lie on a one-parameter subgroup:          *)
(* row i denotes r^(i-1) for a fixed rotation r (the ghost trajectory).          *)
(* The abstract state of the array is, per row, its SIGN (+r^k or -r^k: the same *)
(* rotation) and whether it is a NaN gap.  remove_jumps and slerp_nan act on     *)
(* exactly that; the conformance harness concretises r (angle per step < 60 deg) *)
(* and compares rows, the specification decides signs and which rows are filled. *)
EXTENDS Integers, Sequences, FiniteSets, TLC, Json, IOUtils, SequencesExt

CONSTANTS N,          \* number of rows
          MaxGap      \* longest NaN run for which the geodesic between the neighbours is the
                      \* trajectory itself ((MaxGap+1) * step angle < pi)
VARIABLES sg,         \* [1..N -> {1,-1}] sign of each row
          nn,         \* [1..N -> BOOLEAN] row is NaN
          filled,     \* rows filled by the last slerp_nan (history, for the invariants)
          last        \* last action
vars == <<sg, nn, filled, last>>
Rows == 1..N

RunsOK(m) == \A i \in Rows : \A L \in 1..N : (i + L - 1 <= N /\ \A j \in i..(i+L-1) : m[j]) => L <= MaxGap
Init == /\ sg \in [Rows -> {1, -1}]
        /\ nn \in [Rows -> BOOLEAN] /\ ~nn[1] /\ ~nn[N] /\ RunsOK(nn)
        /\ filled = {} /\ last = "init"

(* remove_jumps compares ADJACENT rows (a difference involving NaN is never a jump) *)
JumpAt(s, m, i) == i \in 2..N /\ ~m[i-1] /\ ~m[i] /\ s[i-1] # s[i]
(* rows between the 1st and 2nd, 3rd and 4th ... detected jump are negated (an unpaired last *)
(* jump runs to the end): row i is negated iff an odd number of jumps lies at or before it   *)
Flipped(s, m, i) == Cardinality({ j \in 2..i : JumpAt(s, m, j) }) % 2 = 1
RJ(s, m) == [ i \in Rows |-> IF Flipped(s, m, i) THEN -s[i] ELSE s[i] ]

RemoveJumps == /\ sg' = RJ(sg, nn) /\ UNCHANGED nn /\ filled' = {} /\ last' = "rj"

LeftValid(m, i) == CHOOSE j \in 1..(i-1) : ~m[j] /\ \A k \in (j+1)..(i-1) : m[k]
(* slerp_nan = remove_jumps, then every NaN run is filled with the geodesic between its  *)
(* neighbours, on the side of the LEFT neighbour (shortest-path flip of the right one)    *)
SNsg(s, m) == LET s1 == RJ(s, m) IN [ i \in Rows |-> IF m[i] THEN s1[LeftValid(m, i)] ELSE s1[i] ]
SlerpNan(inplace) ==
    /\ sg' = SNsg(sg, nn)
    /\ nn' = [ i \in Rows |-> FALSE ]
    /\ filled' = { i \in Rows : nn[i] }
    /\ last' = "sn"
(* slerp_nan(inplace = False) used as a PREVIEW: the caller looks at the returned rows (SNsg) and keeps *)
(* working with the object, which is exactly as it was                                                  *)
Preview == UNCHANGED vars
(* a row of the live object overwritten with NaN through the array interface (a gap found later)        *)
Poke(i) == /\ i \in 2..(N-1) /\ ~nn[i] /\ RunsOK([nn EXCEPT ![i] = TRUE])
           /\ nn' = [nn EXCEPT ![i] = TRUE] /\ UNCHANGED sg /\ filled' = {} /\ last' = "poke"

Next == RemoveJumps \/ (\E ip \in BOOLEAN : SlerpNan(ip)) \/ Preview \/ \E i \in Rows : Poke(i)
Spec == Init /\ [][Next]_vars

(* ------------------------------- invariants ------------------------------- *)
NoNaN(m) == \A i \in Rows : ~m[i]
(* removing sign jumps of a NaN-free array leaves no jump at all *)
NoJumpAfterRJ == (last = "rj" /\ NoNaN(nn)) => \A i \in Rows : sg[i] = sg[1]
(* slerp_nan leaves no NaN; a filled row continues its left neighbour without a jump *)
FilledContinuesLeft == last = "sn" => /\ NoNaN(nn)
                                      /\ \A i \in filled : sg[i] = sg[i-1]
(* no jump between two rows that were both valid and adjacent before the call *)
NoJumpBetweenValid == last \in {"rj", "sn"} => \A i \in 2..N : (i \notin filled /\ (i-1) \notin filled /\ ~nn[i] /\ ~nn[i-1]) => sg[i] = sg[i-1]
(* action properties: both operations are idempotent on the abstract state, never turn a  *)
(* valid row into NaN, and leave an array without jumps and gaps exactly as it was         *)
(* (slerp_nan is NOT idempotent on signs: a jump hidden behind a gap surfaces once the gap  *)
(* is filled -- TLC's counterexample <<-,-,-,-,-,NaN,+>> -- and the property does not ask    *)
(* for more: the filled rows end "at the second endpoint or its antipode")                  *)
Idempotent == [][ last' # "poke" => /\ (last' = "rj" => RJ(sg', nn') = sg')
                                    /\ \A i \in Rows : nn'[i] => nn[i] ]_vars
ZeroGapsZeroJumps == [][ (last' # "poke" /\ NoNaN(nn) /\ \A i \in 2..N : sg[i] = sg[i-1]) => (sg' = sg /\ nn' = nn) ]_vars

(* ------------------------- the interpolation function ------------------------- *)
(* slerp(p, q, j/n) with p = sa r^a, q = sb r^b, |b-a| <= MaxGap+1: the j-th of n equal      *)
(* steps along the minor arc is sa r^(a + (b-a) j/n), whatever the sign sb of the endpoint  *)
Divs(a, b) == { d \in 1..N : (b - a) % d = 0 /\ (b # a \/ d = 1) }
SlerpCases == UNION { { [a |-> a, b |-> b, sa |-> sa, sb |-> sb, n |-> n,
                         expo |-> [j \in 1..(n+1) |-> a + ((b - a) * (j - 1)) \div n], sign |-> sa]
                        : sa \in {1,-1}, sb \in {1,-1}, n \in Divs(a, b) }
                      : a \in 0..(N-1), b \in 0..(N-1) }
=============================================================================
