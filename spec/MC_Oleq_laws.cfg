SPECIFICATION SpecLaws
CONSTANTS
  Attitudes <- AttQuick
  RefPairs <- Pairs
  Weights <- Ws
INVARIANT LawsOnce
POSTCONDITION EmitW
