SPECIFICATION Spec
CONSTANTS
  Attitudes <- AttQuick
  Dips <- DipsQuick
  Scales <- ScQuick
INVARIANT WellPosed
INVARIANT Recovers
POSTCONDITION EmitQuick
