--------------------------- MODULE HamiltonAlgebra ---------------------------
(* C09: the quaternion type of ahrs is the Hamilton algebra.                   *)
(* One register holding a NON-normalised rational quaternion num/den, stored   *)
(* scalar-first ("H") or scalar-last ("S"); the storage order is part of the   *)
(* state because the implementation keeps it per object, but no action's       *)
(* result may depend on it.                                                    *)
EXTENDS Grids, TLC, Json, IOUtils, SequencesExt

CONSTANTS Gen, Start, MaxDepth, MulRoutes, ConjRoutes
VARIABLES num, den, ord, depth
vars == <<num, den, ord, depth>>

AllMulRoutes  == {"product", "mul", "matmul", "q_prod", "mult_L", "mult_R"}
AllConjRoutes == {"conjugate", "conj", "q_conj"}
OneRoute      == {"any"}

(* lowest terms, den > 0 *)
Red(n, d) == LET g == GCD(GCD4(n[1], n[2], n[3], n[4]), d)
             IN  << << n[1] \div g, n[2] \div g, n[3] \div g, n[4] \div g >>, d \div g >>

Init == /\ num \in Start /\ den = 1 /\ ord \in {"H", "S"} /\ depth = 0

MulRight(route, v) == LET r == Red(Mul(num, v), den) IN
                      num' = r[1] /\ den' = r[2] /\ UNCHANGED ord /\ depth' = depth + 1
MulLeft(route, v)  == LET r == Red(Mul(v, num), den) IN
                      num' = r[1] /\ den' = r[2] /\ UNCHANGED ord /\ depth' = depth + 1
Conjugate(route)   == num' = Conj(num) /\ UNCHANGED <<den, ord>> /\ depth' = depth + 1
(* (n/d)^-1 = d Conj(n) / Norm2(n) *)
Invert             == LET r == Red(ScaleQ(den, Conj(num)), Norm2(num)) IN
                      num' = r[1] /\ den' = r[2] /\ UNCHANGED ord /\ depth' = depth + 1
(* store the same quaternion in the other component order *)
Restore            == ord' = (IF ord = "H" THEN "S" ELSE "H") /\ UNCHANGED <<num, den>> /\ depth' = depth + 1

(* derive a new object from the register (copy, view, slice, numpy copy): same quaternion, *)
(* same storage order -- the object changes, the abstract state does not                  *)
DeriveHow == {"copy", "view", "slice", "np.copy"}
Derive(how)        == UNCHANGED <<num, den, ord>> /\ depth' = depth + 1
(* in-place normalisation; rational exactly when |num/den| is an integer s *)
Normalize          == \E s \in 1..64 : /\ s * s * den * den = Norm2(num)
                                        /\ LET r == Red(num, s * den) IN num' = r[1] /\ den' = r[2]
                                        /\ UNCHANGED ord /\ depth' = depth + 1
(* the components of the live object overwritten in place through its array interface (q[:] = v): the register IS v from *)
(* then on, for every later reader (components, conjugate, product matrices, products)                                  *)
Overwrite(v)       == num' = v /\ den' = 1 /\ UNCHANGED ord /\ depth' = depth + 1
(* read the components (w, x, y, z) of the register: no change *)
Observe            == UNCHANGED <<num, den, ord>> /\ depth' = depth + 1

Next == \/ Observe
        \/ \E h \in DeriveHow : Derive(h)
        \/ Normalize
        \/ \E v \in Gen : Overwrite(v)
        \/ \E r \in MulRoutes, v \in Gen : MulRight(r, v) \/ MulLeft(r, v)
        \/ \E r \in ConjRoutes : Conjugate(r)
        \/ Invert
        \/ Restore
Spec  == Init /\ [][Next]_vars
SpecObs == Init /\ [][Observe]_vars     \* law checking only: load, observe
Bound == depth < MaxDepth
ViewNoDepth == <<num, den, ord>>

(* ------------------------------- the laws ------------------------------- *)
NonZero   == ~IsZeroQ(num) /\ den > 0
Laws2     == \A v \in Gen : /\ LawNormMul(num, v) /\ LawAntiHom(num, v) /\ LawAntiHom(v, num)
                            /\ LawLeftRight(num, v) /\ LawLeftRight(v, num)
Laws3     == \A v, w \in Gen : LawAssoc(num, v, w) /\ LawAssoc(v, num, w) /\ LawAssoc(v, w, num)
InverseLaw == LawInverse(num)
(* after Normalize the register is a versor: action property *)
NormalizeGivesVersor == [][ (\E s \in 1..64 : s * s * den * den = Norm2(num) /\ num' = Red(num, s * den)[1] /\ den' = Red(num, s * den)[2])
                            => Norm2(num') = den' * den' ]_vars
(* TLC evaluates invariants of initial states on one thread; the heavy triple law is     *)
(* therefore checked on the (parallel) successors                                        *)
Laws3AtObs == depth >= 1 => Laws3

(* action property: Invert really is the two-sided inverse: (n/d) * (n'/d') = 1 *)
InvIs(n1, d1, n2, d2) == Mul(n1, n2) = ScaleQ(d1 * d2, One) /\ Mul(n2, n1) = ScaleQ(d1 * d2, One)
InvertIsInverse == [][ LET r == Red(ScaleQ(den, Conj(num)), Norm2(num)) IN
                       (num' = r[1] /\ den' = r[2]) => InvIs(num, den, num', den') ]_vars
=============================================================================
