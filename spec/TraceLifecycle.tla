---------------------------- MODULE TraceLifecycle ----------------------------
(* Observed constructor runs (cfg, samples given, rows returned, all rows valid) must be *)
(* Batch steps of FilterLifecycle over a fault-free history of that length: the cfg must *)
(* be in the catalogue and the run must yield one Ok outcome per sample.                 *)
EXTENDS FilterLifecycle
Traces == ndJsonDeserialize(IOEnv.TRACE_FILE)
VARIABLES tid, l
tvars == <<vars, tid, l>>
ASSUME TLCSet(1, [t \in 1..Len(Traces) |-> 0])
One == {1}
Ids1 == {1}
OkOnly == {"ok"}
TraceInit == tid \in 1..Len(Traces) /\ l = 1 /\ Init
Ev == Traces[tid].events[l]
CfgOf(e) == [f |-> e.cfg.f, arch |-> e.cfg.arch, frame |-> e.cfg.frame, rep |-> e.cfg.rep, mode |-> e.cfg.mode, gain |-> e.cfg.gain, rate |-> e.cfg.rate]
(* each event is an independent object: the instance slot is reset, then one Batch step *)
TRun == /\ l <= Len(Traces[tid].events) /\ l' = l + 1 /\ UNCHANGED tid
        /\ CfgOf(Ev) \in Cfgs
        /\ Ev.valid /\ Ev.rows = Ev.n
        /\ cfg' = [cfg EXCEPT ![1] = CfgOf(Ev)]
        /\ hist' = [hist EXCEPT ![1] = [k \in 1..Ev.n |-> <<1, "ok">>]]
        /\ outs' = [outs EXCEPT ![1] = [k \in 1..Ev.rows |-> "Ok"]]
        /\ how' = [how EXCEPT ![1] = "batch"] /\ UNCHANGED dead
TraceSpec == TraceInit /\ [][TRun]_tvars
(* a state that violates an invariant is pruned and does not count as progress (an INVARIANT in the cfg would stop
   the whole batch at the first violation; priming the invariants into the actions is an order of magnitude slower) *)
TraceInv == OneRowPerSample /\ FaultFreeIsOk
Progress == TraceInv /\ (LET f == TLCGet(1) IN IF f[tid] < l THEN TLCSet(1, [f EXCEPT ![tid] = l]) ELSE TRUE)
Accepted == LET f == TLCGet(1) IN
            \A t \in 1..Len(Traces) : \/ f[t] = Len(Traces[t].events) + 1
                                      \/ PrintT(<<"REJECTED", t, f[t]>>) /\ FALSE
=============================================================================
