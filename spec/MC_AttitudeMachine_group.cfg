\* exhaustive: the closed machine over the binary octahedral group
SPECIFICATION Spec
CONSTANTS
  Gen <- GenGroup
  Start <- GenGroup
  VecSet <- VecQuick
  MulRoutes <- AllMulRoutes
  DcmRoutes <- AllDcmRoutes
  RotRoutes <- AllRotRoutes
  ConjRoutes <- AllConjRoutes
  QuatMethods <- AllMethods
  MaxDepth = 1000000
INVARIANT Faithful
INVARIANT ProperRot
INVARIANT RotateLaw
INVARIANT PointLaws
INVARIANT MethodSound
\* depth is a pure step counter: hide it so that the group machine is finite
VIEW ViewNoDepth
