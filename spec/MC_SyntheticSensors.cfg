SPECIFICATION Spec
CONSTANTS
  Starts <- SQ
  StepQuats <- RQ
  Refs <- RF
  MaxK = 1
INVARIANT ConstantRate
INVARIANT RigidReadings
INVARIANT BackToReference
POSTCONDITION EmitAll
