SPECIFICATION Spec
CONSTANTS
  Attitudes <- AttQuick
  RefPairs <- Pairs
  Weights <- Ws
INVARIANT Dominant
POSTCONDITION EmitAll
