SPECIFICATION Spec
CONSTANTS
  Gen <- TwoT
  Start <- TwoT
  MulRoutes <- AllMulRoutes
  ConjRoutes <- AllConjRoutes
  MaxDepth = 3
CONSTRAINT Bound
PROPERTY InvertIsInverse
PROPERTY NormalizeGivesVersor
INVARIANT NonZero
INVARIANT Laws2
INVARIANT InverseLaw
POSTCONDITION EmitP
