SPECIFICATION TraceSpec
CONSTANTS
  MaxErr = 0
CONSTRAINT Progress
POSTCONDITION Accepted
CHECK_DEADLOCK FALSE
