SPECIFICATION TraceSpec
CONSTANTS
  MaxErr = 0
CONSTRAINT Progress
INVARIANT Bounded
INVARIANT Settled
POSTCONDITION Accepted
CHECK_DEADLOCK FALSE
