------------------------------ MODULE Vectorised ------------------------------
(* C07: every operation offered for one item and for an N-row array is ROW-LOCAL:   *)
(*      Batch(op, xs)[i] = Scalar(op, xs[i])                                        *)
(* The specification fixes the catalogue of twin pairs and enumerates the ARRANGEMENTS*)
(* (which class of row sits at which position of an N-row input); the abstract result *)
(* of a row is the pair <<op, row class id>>, so two executions that put the same row  *)
(* content anywhere in any array must observe the same value -- and the value of the   *)
(* scalar entry point.  Options are part of op.                                        *)
EXTENDS Integers, Sequences, FiniteSets, TLC, Json, IOUtils, SequencesExt

ConversionPairs == {"to_DCM", "conjugate", "to_angles", "from_rpy", "q2R.v1", "q2R.v2", "DCM.from_quaternion",
                    "rpy2q", "q_conj", "q_norm",
                    "from_angles", "from_DCM.inplace", "is_pure", "is_real", "is_versor", "is_identity",
                    \* the same operations on data stored scalar-last (constructor option order='S' on both paths)
                    "conjugate[S]", "to_DCM[S]", "to_angles[S]", "is_identity[S]", "is_pure[S]",
                    \* objects that keep the data as given (versor=False / versors=False on both paths)
                    "is_versor[as given]", "to_DCM[as given]", "conjugate[as given]"}
AsGivenPairs == {"is_versor[as given]", "to_DCM[as given]", "conjugate[as given]"}
MethodPairs     == {"from_DCM.shepperd", "from_DCM.hughes", "from_DCM.chiaverini", "from_DCM.sarabandi",
                    "from_DCM.itzhack1", "from_DCM.itzhack2", "from_DCM.itzhack3", "hughes", "chiaverini"}
MetricPairs     == {"qdist", "qeip", "qcip", "qad", "chordal", "euclidean", "rmse", "rmse_matrices"}
EstimatorPairs  == {"Tilt.quaternion", "Tilt.rotmat", "Tilt.angles", "Tilt.acc-only", "SAAM.quaternion", "SAAM.rotmat",
                    "TRIAD.rotmat", "TRIAD.quaternion", "TRIAD.ENU", "Davenport", "QUEST", "FLAE.symbolic", "FLAE.eig", "FLAE.newton",
                    "OLEQ.NED", "OLEQ.ENU", "FAMC", "FQA", "FQA.acc-only", "AQUA.acc-mag", "AQUA.acc-only",
                    "Complementary.am_estimation", "Complementary.am_estimation.acc-only",
                    \* a non-default weights option (not normalised): the option is honoured the same way on both paths
                    "FLAE.symbolic[weights]", "FLAE.eig[weights]", "FLAE.newton[weights]", "QUEST[weights]", "Davenport[weights]", "OLEQ.NED[weights]",
                    \* every option left to its default on both paths; an attribute published next to Q
                    "FLAE[defaults]", "QUEST[defaults]", "Davenport[defaults]", "FQA[defaults]", "TRIAD[defaults]", "Tilt.angles-attribute"}
(* helpers of the frames / orientation modules offered for one 3-vector and for N of them *)
HelperPairs     == {"ned2enu", "enu2ned", "am2angles"}
TwinPairs == ConversionPairs \cup MethodPairs \cup MetricPairs \cup EstimatorPairs \cup HelperPairs

(* the form the caller's data are in: float arrays of unit-scale values, integer-dtype arrays (raw sensor counts,
   integer-valued quaternions), or non-normalised (scaled) quaternions / measurements *)
(* "near-unit": unit rows whose norm has drifted by a few parts per million (inside the tolerance of the versor test) *)
(* "held-first" / "held-second": a two-sensor array in which every row carries the FIRST row's accelerometer (resp. magnetometer) sample,
   bit for bit, while the other sensor changes from row to row (a sensor logged at a lower rate with zero-order hold);
   "nan-entry": one entry of the row is NaN, for the metrics that are documented to skip NaN entries *)
Forms == {"float", "int-dtype", "scaled", "near-unit", "held-first", "held-second", "nan-entry"}
NanPairs == {"rmse"}
(* "conjugated" / "mirrored": for the two-operand (metric) pairs, the second operand is the conjugate of the first / the first with the
   sign of one component flipped (equal magnitudes component by component, another rotation); one more generic row for the others *)
RowClasses == {"generic-a", "generic-b", "half-turn", "near-identity", "identity", "near-half-turn", "conjugated", "mirrored"}
(* 3 and 4 are the row widths of vector and quaternion arrays: an N-by-3 array with N = 3 and an N-by-4 array with N = 4 are square,
   so any dispatch that looks at a shape (len(x) == 3, x.shape[0] == 4) instead of the number of dimensions is ambiguous exactly there *)
Ns == {1, 2, 3, 4, 5}

CONSTANTS Pairs, Classes
VARIABLES op, arr, res, phase
vars == <<op, arr, res, phase>>

Special == {"half-turn", "near-identity", "identity", "near-half-turn", "conjugated", "mirrored"}
(* arrangements: special rows first, in the middle and last; all-generic; all-special *)
Arrangements == UNION { { a \in [1..n -> Classes] :
                            \/ n = 1
                            \/ Cardinality({ i \in 1..n : a[i] \in Special }) <= 1
                            \/ \A i \in 1..n : a[i] = a[1] } : n \in Ns }

Init == op \in Pairs /\ arr \in Arrangements /\ res = << >> /\ phase = "input"
(* the array entry point: one result per row, each a function of (op, that row) only *)
ApplyBatch  == phase = "input" /\ res' = [ i \in 1..Len(arr) |-> << op, arr[i] >> ] /\ phase' = "batch" /\ UNCHANGED <<op, arr>>
(* the scalar entry point applied row by row *)
ApplyScalar == phase = "input" /\ res' = [ i \in 1..Len(arr) |-> << op, arr[i] >> ] /\ phase' = "scalar" /\ UNCHANGED <<op, arr>>
Next == ApplyBatch \/ ApplyScalar
Spec == Init /\ [][Next]_vars

OneResultPerRow == phase # "input" => Len(res) = Len(arr)
RowLocal == phase # "input" => \A i \in 1..Len(arr) : res[i] = << op, arr[i] >>
=============================================================================
