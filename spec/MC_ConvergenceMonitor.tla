------------------------ MODULE MC_ConvergenceMonitor ------------------------
EXTENDS ConvergenceMonitor
KBound == k < 5
=============================================================================
