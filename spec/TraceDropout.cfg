SPECIFICATION TraceSpec
CONSTANTS
  NSlots = 12
  Recover = 4
  TheCfg <- AnyCfg
CONSTRAINT Progress
POSTCONDITION Accepted
CHECK_DEADLOCK FALSE
