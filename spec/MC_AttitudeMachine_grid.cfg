\* all ordered pairs (register, operand) of the quick grid: depth-1 behaviours from every start
SPECIFICATION Spec
CONSTANTS
  Gen <- GenQuick
  Start <- GenQuickThin
  VecSet <- VecQuick
  MulRoutes <- OneRoute
  DcmRoutes <- OneRoute
  RotRoutes <- OneRoute
  ConjRoutes <- OneRoute
  QuatMethods <- NoMethods
  MaxDepth = 1
CONSTRAINT Bound
INVARIANT Faithful
INVARIANT ProperRot
INVARIANT RotateLaw
INVARIANT PointLaws
POSTCONDITION EmitQuick
