SPECIFICATION Spec
CONSTANTS
  OptionSets <- Opts
  MaxCalls = 3
INVARIANT PlainIsPlain
INVARIANT GivenIsUsed
INVARIANT PositionBlind
PROPERTY DefaultsNeverMove
POSTCONDITION EmitSchedules
CHECK_DEADLOCK FALSE
