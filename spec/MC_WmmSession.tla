----------------------------- MODULE MC_WmmSession -----------------------------
EXTENDS WmmSession
D3 == {"d2017", "d2022", "d2027"}
P6 == {"munich", "lat0", "lon0", "northpole", "southpole", "lon180", "munich400", "below"}     \* munich400: munich's latitude and longitude at another height
F2 == {"NED", "ENU"}
NoDev == {}
AsBuilt == {"ctor_skips_zero_lat_lon", "rescale_on_date_none"}
=============================================================================
