----------------------------- MODULE MC_FrameGraph -----------------------------
EXTENDS FrameGraph
Emit(S) == ndJsonSerialize(IOEnv.OUT_FILE, SetToSeq(S)) /\ (TRUE \/ frame = "")
(* the identity paths, recomputed as a constant for emission: chained edge sequences that return *)
Chained(s) == /\ \A i \in 1..(Len(s)-1) : s[i][3] = s[i+1][2]
              /\ \A i \in 1..(Len(s)-1) : (s[i][3] \in {"AER", "DCA"}) => Unit(s[i]) = Unit(s[i+1])
              /\ s[1][2] = s[Len(s)][3] /\ s[1][2] \in {"GEO", "ECEF", "ENU", "NED"}
IdPaths == UNION { { [k \in 1..n |-> s[k][1]] : s \in { t \in [1..n -> Edges] : Chained(t) } } : n \in 2..MaxLen }
ExactCases == { [lat |-> la, lon |-> lo, off |-> o, enu |-> EnuNum(la, lo, o), den |-> EnuDen(la, lo)] : la \in LatPyth, lo \in Pyth, o \in Offsets }
EmitAll == Emit({ [kind |-> "path", path |-> p] : p \in IdPaths } \cup { [kind |-> "exact", c |-> c] : c \in ExactCases })
=============================================================================
