SPECIFICATION Spec
CONSTANTS
  Rots <- TwoO
INVARIANT NonNegative
INVARIANT Symmetric
INVARIANT SignInvariant
INVARIANT ZeroIffSame
INVARIANT LeftInvariant
INVARIANT RightInvariant
INVARIANT ChordalIsTrace
INVARIANT Triangle
POSTCONDITION EmitAll
