----------------------------- MODULE MC_Hamilton -----------------------------
EXTENDS HamiltonAlgebra
GenL1 == L(1)
(* triples for the conformance harness: exact products, both bracketings agree by Laws3 *)
Triples(S) == { [p |-> p, v |-> v, w |-> w, pv |-> Mul(p, v), vw |-> Mul(v, w), pvw |-> Mul(Mul(p, v), w)]
                : p \in S, v \in S, w \in S }
(* (a zero-arity definition whose body is a Java-overridden call would be constant-folded at start-up) *)
(* TLC folds constant-level zero-arity definitions at start-up and then refuses them as       *)
(* POSTCONDITION; the never-evaluated disjunct makes the definition state-level for SANY.      *)
Emit(S) == ndJsonSerialize(IOEnv.OUT_FILE, SetToSeq(S)) /\ (TRUE \/ depth = 0)
EmitT == Emit(Triples(TwoT))
EmitO == Emit(Triples(TwoO))
Pairs(S, T) == { [p |-> p, v |-> v, pv |-> Mul(p, v), vp |-> Mul(v, p)] : p \in S, v \in T }
L2small == { u \in L(2) : Norm2(u) \in {7, 13} }
EmitP  == Emit(Pairs(L(1) \cup L2small, L(1)))
=============================================================================
