SPECIFICATION TraceSpec
CONSTANTS
  Deviations <- @DEVIATIONS@
CONSTRAINT Progress
INVARIANT OnlyRotations
POSTCONDITION Accepted
CHECK_DEADLOCK FALSE
