SPECIFICATION TraceSpec
CONSTANTS
  Deviations <- @DEVIATIONS@
CONSTRAINT Progress
POSTCONDITION Accepted
CHECK_DEADLOCK FALSE
