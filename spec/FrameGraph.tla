------------------------------ MODULE FrameGraph ------------------------------
(* C17: coordinate frames as nodes, the public conversion functions as edges.          *)
(* A point (ghost) is carried along a path of conversions; a path that returns to the   *)
(* frame it started in is an IDENTITY PATH and must reproduce the starting coordinates.  *)
(* Local frames are tied to an origin and (for DCA) a heading angle: these are fixed per *)
(* path, so "ENU" means "ENU at the path's origin".                                      *)
(* Exact part: the ECEF -> ENU rotation at a Pythagorean origin (cos, sin rational) is a  *)
(* rational matrix: orthogonality, isometry and origin |-> 0 are integer identities.      *)
EXTENDS ExactArith, TLC, Json, IOUtils, SequencesExt

Frames == {"GEO", "ECEF", "ENU", "NED", "AER", "DCA", "UVW"}
(* edge = <<function name, source frame, target frame>> *)
Edges == { <<"geodetic2ecef", "GEO", "ECEF">>, <<"ecef2geodetic", "ECEF", "GEO">>, <<"ecef2lla", "ECEF", "GEO">>,
           <<"ecef2enu", "ECEF", "ENU">>, <<"enu2ecef", "ENU", "ECEF">>, <<"geodetic2enu", "GEO", "ENU">>,
           <<"ecef2enuv", "ECEF", "ENU">>,
           <<"enu2aer", "ENU", "AER">>, <<"aer2enu", "AER", "ENU">>, <<"enu2aer[rad]", "ENU", "AER">>, <<"aer2enu[rad]", "AER", "ENU">>,
           <<"enu2dca", "ENU", "DCA">>, <<"dca2enu", "DCA", "ENU">>, <<"enu2dca[rad]", "ENU", "DCA">>, <<"dca2enu[rad]", "DCA", "ENU">>,
           <<"enu2ned", "ENU", "NED">>, <<"ned2enu", "NED", "ENU">>,
           <<"enu2ned[N-by-3]", "ENU", "NED">>, <<"ned2enu[N-by-3]", "NED", "ENU">>,     \* the same functions given several points at once
           <<"enu2uvw", "ENU", "UVW">>, <<"uvw+origin", "UVW", "ECEF">> }
(* degree and radian variants of a pair must not be mixed inside one AER / DCA excursion *)
Unit(e) == IF e[1] \in {"enu2aer[rad]", "aer2enu[rad]", "enu2dca[rad]", "dca2enu[rad]"} THEN "rad" ELSE "deg"

CONSTANTS MaxLen
VARIABLES frame, start, path, unit
vars == <<frame, start, path, unit>>
Init == frame \in {"GEO", "ECEF", "ENU", "NED"} /\ start = frame /\ path = << >> /\ unit = "none"
Take(e) == /\ e[2] = frame /\ Len(path) < MaxLen
           /\ (frame \in {"AER", "DCA"} => Unit(e) = unit)           \* leave an angular frame in the unit it was entered
           /\ frame' = e[3] /\ path' = Append(path, e[1])
           /\ unit' = IF e[3] \in {"AER", "DCA"} THEN Unit(e) ELSE "none"
           /\ UNCHANGED start
Next == \E e \in Edges : Take(e)
Spec == Init /\ [][Next]_vars
IdentityPath == Len(path) > 0 /\ frame = start
TypeOK == frame \in Frames /\ Len(path) <= MaxLen

(* ----------------------- exact ECEF -> ENU at Pythagorean origins ----------------------- *)
(* origin: latitude (cl, sl)/dl, longitude (co, so)/do ; ECEF offset (u, v, w) integers      *)
(* east  = (-so u + co v)/do                                                                 *)
(* t     = ( co u + so v)/do ;  up = (cl t + sl w)/dl ; north = (-sl t + cl w)/dl             *)
EnuNum(lat, lon, off) ==
    LET co == lon[1] so == lon[2] do == lon[3] cl == lat[1] sl == lat[2] dl == lat[3]
        tn == co * off[1] + so * off[2]
    IN  << (-so * off[1] + co * off[2]) * dl, -sl * tn + cl * off[3] * do, cl * tn + sl * off[3] * do >>    \* over do*dl
EnuDen(lat, lon) == lon[3] * lat[3]
Pyth == { <<1,0,1>>, <<0,1,1>>, <<3,4,5>>, <<4,3,5>>, <<5,12,13>>, <<-3,4,5>>, <<4,-3,5>>, <<0,-1,1>>, <<-1,0,1>>, <<12,-5,13>>, <<8,15,17>> }
LatPyth == { t \in Pyth : t[1] >= 0 }                       \* cos(latitude) >= 0
Offsets == { <<1,0,0>>, <<0,1,0>>, <<0,0,1>>, <<3,-4,12>>, <<-20,50,15>>, <<60,60,-60>> }
(* isometry: |ENU|^2 den^2 = |offset|^2 den^2 ... and the origin (zero offset) maps to zero *)
Isometry == \A la \in LatPyth, lo \in Pyth, o \in Offsets :
               LET e == EnuNum(la, lo, o) d == EnuDen(la, lo) IN Dot3(e, e) = d * d * Dot3(o, o)
OriginToZero == \A la \in LatPyth, lo \in Pyth : EnuNum(la, lo, <<0,0,0>>) = <<0,0,0>>
=============================================================================
