--------------------------- MODULE TraceAttitude ---------------------------
(* Trace validation for AttitudeMachine: behaviours recorded from the real   *)
(* ahrs objects (one event per public call, logged at its return, with the   *)
(* abstracted register contents) must be behaviours of the specification.    *)
(* Many traces per TLC run: tid is chosen in Init, progress is kept in one    *)
(* TLCSet register (needs -workers 1), acceptance is a POSTCONDITION.        *)
EXTENDS AttitudeMachine

Traces == ndJsonDeserialize(IOEnv.TRACE_FILE)    \* sequence of [events |-> <<...>>, start |-> q]

VARIABLES tid, l
tvars == <<vars, tid, l>>

ASSUME TLCSet(1, [t \in 1..Len(Traces) |-> 0])

Empty == {}

Tup4(s) == << s[1], s[2], s[3], s[4] >>
Tup3(s) == << s[1], s[2], s[3] >>
Mat3(s) == << Tup3(s[1]), Tup3(s[2]), Tup3(s[3]) >>

TraceInit == /\ tid \in 1..Len(Traces)
             /\ l = 1
             /\ q = Tup4(Traces[tid].start)
             /\ R = MatOf(q)
             /\ depth = 0

Ev == Traces[tid].events[l]
IsEvent(name) == /\ l <= Len(Traces[tid].events)
                 /\ Ev.act = name
                 /\ l' = l + 1
                 /\ UNCHANGED tid
(* the logged post-state must be the one the specification action produces *)
Logged == /\ q' = Tup4(Ev.q)
          /\ R' = << Mat3(Ev.R), Ev.den >>

TMulRight == IsEvent("MulRight") /\ MulRight(Ev.route, Tup4(Ev.v)) /\ Logged
TMulLeft  == IsEvent("MulLeft")  /\ MulLeft(Ev.route, Tup4(Ev.v))  /\ Logged
TConj     == IsEvent("Conjugate") /\ Conjugate(Ev.route) /\ Logged
TNeg      == IsEvent("Negate") /\ Negate /\ Logged
TConvert  == IsEvent("Convert") /\ Convert(Ev.route) /\ Logged
TRotate   == IsEvent("Rotate") /\ Rotate(Ev.route, Tup3(Ev.v)) /\ Logged
                 \* the rotated vector observed in the code, scaled to integers by the harness
              /\ Scale3(R[2], Tup3(Ev.out)) = Scale3(Ev.outden, MatVec(R[1], Tup3(Ev.v)))

TToQuat   == IsEvent("ToQuat") /\ ToQuat(Ev.route, Ev.disp) /\ Logged
TraceNext == TToQuat \/ TMulRight \/ TMulLeft \/ TConj \/ TNeg \/ TConvert \/ TRotate
TraceSpec == TraceInit /\ [][TraceNext]_tvars

(* a state that violates an invariant is pruned and does not count as progress (an INVARIANT in the cfg would stop
   the whole batch at the first violation; priming the invariants into the actions is an order of magnitude slower) *)
TraceInv == Faithful /\ ProperRot
Progress == TraceInv /\ (LET f == TLCGet(1) IN IF f[tid] < l THEN TLCSet(1, [f EXCEPT ![tid] = l]) ELSE TRUE)
Accepted == LET f == TLCGet(1) IN
            \A t \in 1..Len(Traces) :
               \/ f[t] = Len(Traces[t].events) + 1
               \/ PrintT(<<"REJECTED", t, f[t]>>) /\ FALSE
=============================================================================
