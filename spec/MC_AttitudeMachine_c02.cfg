\* C02: every method on every register of L(2) u thin families; one ToQuat step from each
SPECIFICATION Spec
CONSTANTS
  Gen <- NoMethods
  Start <- C02Grid
  VecSet <- NoMethods
  MulRoutes <- OneRoute
  DcmRoutes <- OneRoute
  RotRoutes <- OneRoute
  ConjRoutes <- OneRoute
  QuatMethods <- AllMethods
  MaxDepth = 1
CONSTRAINT Bound
INVARIANT Faithful
INVARIANT ProperRot
INVARIANT MethodSound
INVARIANT ClosedFormIdentities
POSTCONDITION EmitC02
