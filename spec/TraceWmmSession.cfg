SPECIFICATION TraceSpec
CONSTANTS
  Dates <- D3
  Places <- P6
  Frames <- F2
  Deviations <- NoDev
  MaxOps = 1000
CONSTRAINT Progress
POSTCONDITION Accepted
CHECK_DEADLOCK FALSE
