------------------------- MODULE MC_Representations -------------------------
EXTENDS Representations
HA == { <<1,0>>, <<2,1>>, <<1,1>>, <<1,2>>, <<3,-1>>, <<1,-1>>, <<1,-3>>, <<0,1>>, <<7,1>>, <<12,-1>> }
PH == { <<1,0>>, <<2,1>>, <<3,-1>>, <<5,4>>, <<7,-6>>, <<12,1>>, <<9,-8>> }
AX == { << <<1,0,0>>, 1 >>, << <<0,-1,0>>, 1 >>, << <<0,0,1>>, 1 >>, << <<1,2,2>>, 3 >>, << <<-2,1,2>>, 3 >>,
        << <<2,3,6>>, 7 >>, << <<0,3,-4>>, 5 >>, << <<-6,2,3>>, 7 >> }
TH == { <<1,1>>, <<2,1>>, <<1,2>>, <<7,1>>, <<12,1>>, <<1,7>>, <<1,12>>, <<-1,2>>, <<0,1>>, <<3,4>> }
EX == -3..3
HAs == { <<1,0>>, <<2,1>>, <<1,-1>>, <<0,1>>, <<1,3>>, <<12,-1>> }

Emit(S) == ndJsonSerialize(IOEnv.OUT_FILE, SetToSeq(S)) /\ (TRUE \/ rep = "")
RpyCases == { [kind |-> "rpy", r |-> r, p |-> p, y |-> y, q |-> FromRpy(r, p, y),
               roll |-> Double(r), sinpitch |-> << Double(p)[2], p[1]*p[1] + p[2]*p[2] >>, yaw |-> Double(y)]
              : r \in HA, p \in PH, y \in HA }
AxCases  == { [kind |-> "axang", n |-> ax[1], len |-> ax[2], h |-> h, q |-> FromAxang(ax[1], ax[2], h),
               Mn |-> M(FromAxang(ax[1], ax[2], h)), N |-> Norm2(FromAxang(ax[1], ax[2], h)),
               pows |-> IF SmallQ(FromAxang(ax[1], ax[2], h)) THEN [k \in 1..7 |-> PowQ(FromAxang(ax[1], ax[2], h), k - 4)] ELSE << >>]
              : ax \in AX, h \in TH }
SeqCases == UNION { { [kind |-> "euler", axes |-> s, hs |-> hs, q |-> SeqQuat(s, hs), Mn |-> M(SeqQuat(s, hs)), N |-> Norm2(SeqQuat(s, hs))]
                      : hs \in [1..Len(s) -> HAs] } : s \in Seqs }
EmitAll == Emit(RpyCases \cup AxCases \cup SeqCases)
=============================================================================
