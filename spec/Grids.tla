------------------------------ MODULE Grids ------------------------------
(* Finite input families in the exact domain.                              *)
EXTENDS QuatAlg

Box4(K) == { <<w, x, y, z>> : w \in -K..K, x \in -K..K, y \in -K..K, z \in -K..K }
(* primitive integer quaternions with components in -K..K: every rotation *)
(* direction of the box exactly twice (u and -u)                          *)
L(K) == { u \in Box4(K) : ~IsZeroQ(u) /\ GCD4(u[1], u[2], u[3], u[4]) = 1 }

(* binary octahedral group 2O, as primitive integer vectors (48 elements) *)
NZ(u) == Cardinality({ i \in 1..4 : u[i] # 0 })
TwoO  == { u \in Box4(1) : NZ(u) \in {1, 2, 4} }
(* Hurwitz units 2T (24): components 0, +-1/2, +-1 - exact binary floats   *)
TwoT  == { u \in Box4(1) : NZ(u) \in {1, 4} }

(* thin families: rotation angle ~ 2/K about an axis, angle ~ pi - 2/K     *)
Axes3 == { <<1,0,0>>, <<0,1,0>>, <<0,0,1>>, <<1,1,0>>, <<1,-1,1>>, <<1,2,2>>, <<-2,1,2>>, <<2,3,6>> }
NearId(K) == { <<K, a[1], a[2], a[3]>> : a \in Axes3 } \cup { <<K, -a[1], -a[2], -a[3]>> : a \in Axes3 }
NearPi(K) == { <<1, K*a[1], K*a[2], K*a[3]>> : a \in Axes3 } \cup { <<-1, K*a[1], K*a[2], K*a[3]>> : a \in Axes3 }
(* exact half-turns, projectively: w = 0 *)
HalfTurns == { <<0, a[1], a[2], a[3]>> : a \in Axes3 } \cup { <<0, -a[1], -a[2], -a[3]>> : a \in Axes3 }

Vecs3(K) == { <<x, y, z>> : x \in -K..K, y \in -K..K, z \in -K..K }
=============================================================================
