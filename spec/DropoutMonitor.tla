---------------------------- MODULE DropoutMonitor ----------------------------
(* C13: a run of a recursive filter over a history divided into SLOTS; a slot may be  *)
(* a dropout (its accelerometer / magnetometer / gyroscope readings all zero).         *)
(* Per slot the run yields an outcome -- Ok, Skipped, Rejected (ValueError: the run    *)
(* stops there) -- never Poisoned (NaN / inf / non-unit output), and a flag `close`:   *)
(* the estimate is within the filter's tolerance of the estimate on the same history   *)
(* without the dropout.  Safety automaton: Recover slots after the last visible fault   *)
(* the run must be close again, and it must have been close before any fault.          *)
EXTENDS FilterCatalogue, TLC, Json, IOUtils, SequencesExt

CONSTANTS NSlots, Recover, TheCfg
VARIABLES k, since, status, pattern, near
mvars == <<k, since, status, pattern, near>>

(* fault patterns: at most two dropout runs of 1..3 slots, any kind, anywhere -- also in the very first slot (then the run has   *)
(* no valid first sample to take its initial attitude from: the safety part applies, the closeness part needs a common start) *)
Pat(s1, l1, k1, s2, l2, k2) == [ i \in 1..NSlots |-> IF i >= s1 /\ i < s1 + l1 THEN k1
                                                     ELSE IF i >= s2 /\ i < s2 + l2 THEN k2 ELSE "ok" ]
Kinds == FaultKinds \ {"ok"}
Patterns == { Pat(s1, l1, k1, s2, l2, k2) : s1 \in 1..NSlots, l1 \in 1..3, k1 \in Kinds,
                                            s2 \in 2..(NSlots+1), l2 \in 0..3, k2 \in Kinds }

MInit == pattern \in Patterns /\ k = 0 /\ since = Recover /\ status = "running" /\ near = TRUE
(* one slot of the run: the environment supplies the fault, the filter the outcome and closeness *)
(* `held`: "skips its correction" made observable.  A filter that was close to the undisturbed run when a visible fault begins and does *)
(* not refuse it goes on from its last estimate with the gyroscope alone (or stands still): at the end of the faulted slot it is still   *)
(* where dead reckoning from that estimate puts it -- it has not been pulled towards whatever attitude a null sample would suggest.    *)
(* (Judged by the harness on histories of a body at rest, with the drift a gyroscope bias allows; `near` remembers the closeness of    *)
(* the previous slot.)                                                                                                                *)
Slot(outcome, close, held) ==
    /\ status = "running" /\ k < NSlots
    /\ LET fk == pattern[k + 1] vis == Visible(TheCfg, fk) IN
       /\ outcome \in AllowedOutcomes(TheCfg, fk)
       /\ since' = IF vis THEN 0 ELSE since + 1
       /\ ((since' >= Recover /\ pattern[1] = "ok") => close)
       /\ ((vis /\ near /\ pattern[1] = "ok" /\ outcome # "Rejected") => held)
       /\ status' = IF outcome = "Rejected" THEN "rejected" ELSE "running"
    /\ near' = close
    /\ k' = k + 1 /\ UNCHANGED pattern
MNext == \E o \in {"Ok", "Skipped", "Rejected"}, c \in BOOLEAN, h \in BOOLEAN : Slot(o, c, h)
MSpec == MInit /\ [][MNext]_mvars

(* a run that is not rejected consumes every slot; a rejected run stopped at a visible fault *)
RejectedOnlyAtFault == status = "rejected" => Visible(TheCfg, pattern[k])
=============================================================================
