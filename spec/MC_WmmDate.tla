------------------------------ MODULE MC_WmmDate ------------------------------
EXTENDS WmmDate
Emit(S) == ndJsonSerialize(IOEnv.OUT_FILE, SetToSeq(S)) /\ (TRUE \/ t = 0)
CalCases == { [y |-> yy, d |-> dd, t |-> CalTenth(yy, dd), epoch |-> CalEpoch(yy), dt |-> CalDt(yy, dd), amb |-> Ambiguous(yy, dd)]
              : yy \in 2015..2030, dd \in {1, 2, 17, 18, 19, 36, 37, 100, 182, 183, 184, 200, 300, 329, 330, 347, 348, 349, 364, 365} }
           \cup { [y |-> yy, d |-> 366, t |-> CalTenth(yy, 366), epoch |-> CalEpoch(yy), dt |-> CalDt(yy, 366), amb |-> Ambiguous(yy, 366)] : yy \in {2016, 2020, 2024, 2028} }
DecCases == { [tt |-> tt, epoch |-> Epoch(tt), dt |-> Dt(tt)] : tt \in 20150..20300 }
EmitAll == Emit({ [kind |-> "cal", c |-> c] : c \in CalCases } \cup { [kind |-> "dec", c |-> c] : c \in DecCases })
=============================================================================
