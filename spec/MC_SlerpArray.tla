---------------------------- MODULE MC_SlerpArray ----------------------------
EXTENDS SlerpArray
Emit(S) == ndJsonSerialize(IOEnv.OUT_FILE, SetToSeq(S)) /\ (TRUE \/ last = "")
Fits == { c \in SlerpCases : (c.b - c.a) <= MaxGap + 1 /\ (c.a - c.b) <= MaxGap + 1 }
EmitSlerp == Emit(Fits)
(* the transition table of the initial states, for forward replay *)
Table == { [kind |-> "array", sg |-> s, nn |-> m, rj |-> RJ(s, m), sn |-> SNsg(s, m)]
           : s \in [Rows -> {1, -1}], m \in { mm \in [Rows -> BOOLEAN] : ~mm[1] /\ ~mm[N] /\ RunsOK(mm) } }
EmitAll == Emit(Fits \cup Table)
=============================================================================
