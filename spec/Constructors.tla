----------------------------- MODULE Constructors -----------------------------
(* C11: which inputs the public constructors accept, and what they then hold.      *)
(* An input is described by its CLASS (shape, fill, direction, magnitude decade /   *)
(* matrix class, construction route); the decision table says whether it must be   *)
(* accepted (and then denote the direction / rotation of the ghost) or rejected     *)
(* with ValueError / TypeError.  Every public construction is one action; the       *)
(* object either becomes Valid(g) or the call is Rejected and nothing is created.   *)
EXTENDS Grids, TLC, Json, IOUtils, SequencesExt

(* the same 3- / 4-vector as a read-only array or as a strided view (a column of a table of samples) *)
QuatLayoutShapes == {"v4[read-only]", "v4[strided-view]", "v3[strided-view]"}
QuatShapes  == {"v3", "v4", "v2", "v5", "m1x4", "scalar", "empty"} \cup QuatLayoutShapes         \* for Quaternion(...)
(* (an empty (0,4) array holds no invalid rotation: not a table row) *)
(* the same N-by-3 / N-by-4 content in another memory layout: Fortran order, a strided view of a larger array *)
LayoutShapes == {"N4[F-order]", "N3[F-order]", "N4[strided-view]"}
ArrayShapes == {"N3", "N4", "N2", "v4", "N5", "NxNx4"} \cup LayoutShapes           \* for QuaternionArray(...)
Fills       == {"finite", "zero", "nan", "inf", "string", "none-entry"}
ArrayFills  == Fills \cup {"one-zero-row", "one-nan-row"}
(* magnitude classes: 10^d for the decades, and the two codes 1 / -1 for "a unit direction scaled by 1 +- 3 ppm"  *)
(* (already unit as far as a tolerance-based shortcut can tell, yet not unit: float32 logs, rounded files)        *)
NearUnit    == {1, -1}
Decades     == {-100, -30, -12, -8, 0, 8, 30, 100} \cup NearUnit
VersorFlags == {TRUE, FALSE}

MatClasses  == {"rotation", "rotation+1e-12", "reflection", "scaled-up", "scaled-down", "sheared",
                "non-orthogonal", "nan-entry", "inf-entry", "zero", "2x2", "3x3x3-bad", "stack-of-rotations",
                "stack-one-reflection", "stack-of-rotations[F-order]",
                "rotation[F-order]", "rotation[transposed-view]", "rotation[strided-view]", "rotation[int-dtype]", "rotation[read-only]", "rotation[list-of-lists]",
                \* a non-rotation that carries the TYPE of a verified rotation (arithmetic and in-place edits on a DCM object keep its class)
                "reflection[DCM-typed]", "scaled-up[DCM-typed]", "sheared[DCM-typed]"}
(* a proper rotation handed over in another memory layout or element type (content unchanged): Fortran order, a   *)
(* transposed view (R.T of the transpose), a strided view of a larger array, integer dtype (signed permutation     *)
(* matrices), a read-only array                                                                                     *)
LayoutClasses == {"rotation[F-order]", "rotation[transposed-view]", "rotation[strided-view]", "rotation[int-dtype]", "rotation[read-only]",
                  "rotation[list-of-lists]"}
DcmRoutes   == {"matrix", "q=", "x=", "y=", "z=", "xyz=", "rpy=", "euler=", "axang="}

(* ------------------------------ decision table ------------------------------ *)
QuatAccepts(shape, fill)  == shape \in {"v3", "v4"} \cup QuatLayoutShapes /\ fill = "finite"
ArrayAccepts(shape, fill) == shape \in {"N3", "N4"} \cup LayoutShapes /\ fill = "finite"
MatAccepts(mc)            == mc \in {"rotation", "rotation+1e-12", "stack-of-rotations", "stack-of-rotations[F-order]"} \cup LayoutClasses

VARIABLES call,     \* the last constructor call: its class record
          out       \* "none" | "valid" | "rejected"
vars == <<call, out>>

QuatCalls  == [ctor : {"Quaternion"}, shape : QuatShapes, fill : Fills, dec : Decades, versor : VersorFlags]
ArrayCalls == [ctor : {"QuaternionArray"}, shape : ArrayShapes, fill : ArrayFills, dec : Decades, versor : VersorFlags]
MatCtors   == {"DCM", "Quaternion(dcm=)", "QuaternionArray(DCM=)"}
DcmCalls   == [ctor : MatCtors, route : {"matrix"}, mc : MatClasses]
              \cup [ctor : {"DCM"}, route : DcmRoutes \ {"matrix"}, mc : {"rotation", "nan-entry", "zero"}]
              \cup [ctor : {"DCM"}, route : {"q=", "axang="}, mc : {"rotation[int-dtype]"}]       \* integer quaternion / integer axis
AllCalls   == QuatCalls \cup ArrayCalls \cup DcmCalls

Expected(c) == IF c.ctor = "Quaternion" THEN (IF QuatAccepts(c.shape, c.fill) THEN "valid" ELSE "rejected")
               ELSE IF c.ctor = "QuaternionArray" THEN (IF ArrayAccepts(c.shape, c.fill) THEN "valid" ELSE "rejected")
               ELSE IF c.ctor = "Quaternion(dcm=)" THEN (IF c.mc \in {"rotation", "rotation+1e-12"} \cup LayoutClasses THEN "valid" ELSE "rejected")
               ELSE IF c.ctor = "QuaternionArray(DCM=)" THEN (IF c.mc \in {"stack-of-rotations", "stack-of-rotations[F-order]"} THEN "valid" ELSE "rejected")
               ELSE IF c.route = "matrix" THEN (IF MatAccepts(c.mc) THEN "valid" ELSE "rejected")
               ELSE \* keyword routes: finite parameters always give a rotation; a zero quaternion / axis or NaN cannot
                    IF c.mc \in {"rotation", "rotation[int-dtype]"} THEN "valid"
                    ELSE IF c.mc = "zero" /\ c.route \in {"x=", "y=", "z=", "xyz=", "rpy=", "euler="} THEN "valid"   \* zero angles
                    ELSE "rejected"

(* Stacks: the acceptance of an N-row array is the conjunction of the acceptance of its rows, and every accepted row is normalised by   *)
(* its OWN norm -- the decade of one row has no bearing on another row of the same array (a common scale factor for the whole array  *)
(* under- or overflows for rows 10^154 apart).  `decades` is the sequence of row decades, all inside Decades.                       *)
StackExpected(decades) == IF \A i \in DOMAIN decades : decades[i] \in Decades THEN "valid" ELSE "rejected"
MixedStacks == { <<100, 0, -100>>, <<-100, 100>>, <<-100, -100, 100, -100>>, <<0, -100, -8>>, <<30, -30, 30, -30, 0>> }     \* concretised by the harness as 10^d times six exact directions
MixedStacksAccepted == \A d \in MixedStacks : StackExpected(d) = "valid"

Init == call = [ctor |-> "none"] /\ out = "none"
Construct(c) == call' = c /\ out' = Expected(c)
Next == \E c \in AllCalls : Construct(c)
Spec == Init /\ [][Next]_vars

(* the property: nothing that cannot be a rotation is ever wrapped *)
OnlyRotations == out = "valid" =>
                   \/ call.ctor = "Quaternion" /\ call.fill = "finite" /\ call.shape \in {"v3", "v4"} \cup QuatLayoutShapes
                   \/ call.ctor = "QuaternionArray" /\ call.fill = "finite" /\ call.shape \in {"N3", "N4"} \cup LayoutShapes
                   \/ call.ctor \in MatCtors /\ call.mc \notin {"reflection", "scaled-up", "scaled-down", "sheared", "non-orthogonal",
                                                          "reflection[DCM-typed]", "scaled-up[DCM-typed]", "sheared[DCM-typed]",
                                                          "nan-entry", "inf-entry", "2x2", "3x3x3-bad", "stack-one-reflection"}
(* and every finite, non-zero vector of either admissible shape is accepted, whatever its magnitude *)
AllDirectionsAccepted == (call.ctor \in {"Quaternion", "QuaternionArray"} /\ call.fill = "finite"
                          /\ call.shape \in {"v3", "v4", "N3", "N4"} \cup LayoutShapes \cup QuatLayoutShapes /\ ~(call.ctor = "QuaternionArray" /\ call.shape \in {"v4"} \cup QuatLayoutShapes)
                          /\ ~(call.ctor = "Quaternion" /\ call.shape \in {"N3", "N4"} \cup LayoutShapes)) => out = "valid"
=============================================================================
