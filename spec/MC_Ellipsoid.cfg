SPECIFICATION Spec
CONSTANTS
  As <- AS
  Fs <- FS
  GMs <- GS
  W2s <- WS
  Lats <- LS
INVARIANT FirstEcc
INVARIANT SecondEcc
INVARIANT PolarCurvature
INVARIANT MeanRadius
INVARIANT Pythagorean
INVARIANT SphereLimitPizzetti
POSTCONDITION EmitAll
