------------------------------ MODULE MC_WmmSynth ------------------------------
EXTENDS WmmSynth
LS == { <<4,3,5>>, <<3,4,5>>, <<3,-4,5>>, <<1,0,1>>, <<0,1,1>>, <<0,-1,1>> }
LS13 == LS \cup { <<12,5,13>>, <<5,-12,13>> }
Emit(S) == ndJsonSerialize(IOEnv.OUT_FILE, SetToSeq(S)) /\ (TRUE \/ n = 0)
Rec(nn, mm, la) == [n |-> nn, m |-> mm, lat |-> la, P |-> Pdef(nn, mm, RatN(<<la[2], la[3]>>), RatN(<<la[1], la[3]>>)),
                    dP |-> dPdef(nn, mm, RatN(<<la[2], la[3]>>), RatN(<<la[1], la[3]>>)), S2 |-> Schmidt2(nn, mm)]
EmitAll == Emit(UNION { { Rec(nn, mm, la) : mm \in 0..nn, la \in LS } : nn \in 1..MaxN })
=============================================================================
