-------------------------- MODULE TraceConstructors --------------------------
(* every constructor call observed on the real classes, with its outcome kind,     *)
(* must be a Construct step of the decision table                                  *)
EXTENDS Constructors
CONSTANT Deviations
Traces == ndJsonDeserialize(IOEnv.TRACE_FILE)
VARIABLES tid, l
tvars == <<vars, tid, l>>
ASSUME TLCSet(1, [t \in 1..Len(Traces) |-> 0])
NoDeviation == {}
(* signatures of the open known findings, written by the harness from known_findings.json *)
DevSeq == JsonDeserialize(IOEnv.DEV_FILE)
DevSet == { DevSeq[i] : i \in 1..Len(DevSeq) }
TraceInit == tid \in 1..Len(Traces) /\ l = 1 /\ Init
Ev == Traces[tid].events[l]
ToCall(e) == IF e.ctor \in MatCtors THEN [ctor |-> e.ctor, route |-> e.route, mc |-> e.mc]
             ELSE [ctor |-> e.ctor, shape |-> e.shape, fill |-> e.fill, dec |-> e.dec, versor |-> e.versor]
TConstruct == /\ l <= Len(Traces[tid].events) /\ l' = l + 1 /\ UNCHANGED tid
              /\ Construct(ToCall(Ev))
              /\ \/ out' = Ev.outcome
                 \/ Ev.dev \in Deviations        \* as-built: an open known finding explains the outcome
TraceSpec == TraceInit /\ [][TConstruct]_tvars
Progress == LET f == TLCGet(1) IN IF f[tid] < l THEN TLCSet(1, [f EXCEPT ![tid] = l]) ELSE TRUE
Accepted == LET f == TLCGet(1) IN
            \A t \in 1..Len(Traces) : \/ f[t] = Len(Traces[t].events) + 1
                                      \/ PrintT(<<"REJECTED", t, f[t]>>) /\ FALSE
=============================================================================
