SPECIFICATION Spec
CONSTANTS
  Dates <- D3
  Places <- P6
  Frames <- F2
  Deviations <- AsBuilt
  MaxOps = 4
CONSTRAINT Bound
INVARIANT ServesWhatWasAsked
INVARIANT ScaledOnce
