------------------------------- MODULE Ellipsoid -------------------------------
(* C16: a level ellipsoid (a, f, GM, w) in exact rationals.                           *)
(* a is an integer number of length units, f = fn/fd; everything that is algebraic   *)
(* (b, eccentricities, linear eccentricity squared, curvature and mean radii, m) is  *)
(* an exact rational; the equatorial and polar normal gravity involve arctan and are  *)
(* only constrained by RELATIONS: Pizzetti's theorem (linear in ge, gp), Somigliana's  *)
(* formula with rational coefficients at Pythagorean latitudes, and the rotating-     *)
(* sphere limit  ge = GM (1 - 3m/2)/a^2,  gp = GM (1 + m)/a^2  at f = 0, which is     *)
(* checked here to satisfy Pizzetti exactly.                                          *)
EXTENDS ExactArith, TLC, Json, IOUtils, SequencesExt

CONSTANTS As, Fs, GMs, W2s, Lats
VARIABLES a, f, gm, w2, lat
vars == <<a, f, gm, w2, lat>>
Init == a \in As /\ f \in Fs /\ gm \in GMs /\ w2 \in W2s /\ lat \in Lats
Spec == Init /\ [][UNCHANGED vars]_vars

(* rationals as <<n, d>>; f = <<fn, fd>> *)
B  == << a * (f[2] - f[1]), f[2] >>                               \* b = a (1 - f)
E2 == << 2 * f[1] * f[2] - f[1] * f[1], f[2] * f[2] >>           \* first eccentricity squared 2f - f^2
(* defining identities, in reduced rationals *)
Br == RatN(B)
Ratio == RatDiv(Br, RatInt(a))                                                       \* aspect ratio b/a = 1 - f
FirstEcc  == RatN(E2) = RatSub(RatInt(1), RatMul(Ratio, Ratio))                      \* e^2 = (a^2 - b^2)/a^2 = 2f - f^2
SecondEccIs == RatSub(RatDiv(RatInt(1), RatMul(Ratio, Ratio)), RatInt(1))            \* e'^2 = (a^2 - b^2)/b^2
SecondEcc == RatMul(SecondEccIs, RatMul(Ratio, Ratio)) = RatN(E2)                    \* e'^2 (b/a)^2 = e^2
PolarCurvature == RatDiv(RatInt(a), RatSub(RatInt(1), RatN(f))) = RatDiv(RatInt(a * a), Br)      \* a/(1-f) = a^2/b
MeanRadius == RatMul(RatInt(a), RatSub(RatInt(1), RatDiv(RatN(f), RatInt(3)))) = RatDiv(RatAdd(RatInt(2 * a), Br), RatInt(3))   \* a(1 - f/3) = (2a + b)/3
(* m = w^2 a^2 b / GM  with w2 = <<n, d>> (w squared), gm integer *)
M == LET b == B IN << w2[1] * a * a * b[1], w2[2] * b[2] * gm >>
(* Somigliana coefficients at latitude (c, s)/h:  g = (a ge c^2 + b gp s^2) / sqrt(a^2 c^2 + b^2 s^2)  (all over h^2) *)
SomA == << a * lat[1] * lat[1], 1 >>
SomB == LET b == B IN << b[1] * lat[2] * lat[2], b[2] >>
SomC == LET b == B IN << a * a * lat[1] * lat[1] * b[2] * b[2] + b[1] * b[1] * lat[2] * lat[2], b[2] * b[2] >>
Pythagorean == lat[1] * lat[1] + lat[2] * lat[2] = lat[3] * lat[3]
(* the sphere limit satisfies Pizzetti:  2 ge/a + gp/b = 3 GM/(a^2 b) - 2 w^2   with f = 0, b = a *)
SphereLimitPizzetti ==
    f[1] = 0 =>
      LET m   == RatN(<< w2[1] * a * a * a, w2[2] * gm >>)                                   \* m = w^2 a^3 / GM  (b = a)
          a2  == RatInt(a * a)
          ge  == RatDiv(RatMul(RatInt(gm), RatSub(RatInt(1), RatMul(<<3, 2>>, m))), a2)       \* GM (1 - 3m/2) / a^2
          gp  == RatDiv(RatMul(RatInt(gm), RatAdd(RatInt(1), m)), a2)                         \* GM (1 + m) / a^2
          lhs == RatAdd(RatDiv(RatMul(RatInt(2), ge), RatInt(a)), RatDiv(gp, RatInt(a)))
          rhs == RatSub(RatDiv(RatInt(3 * gm), RatInt(a * a * a)), RatMul(RatInt(2), RatN(w2)))
      IN  lhs = rhs
=============================================================================
