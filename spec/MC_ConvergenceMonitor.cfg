SPECIFICATION Spec
CONSTANTS
  MaxErr = 6
CONSTRAINT KBound
INVARIANT Bounded
INVARIANT Settled
PROPERTY Absorbing
