SPECIFICATION Spec
CONSTANTS
  Attitudes <- AttAll
  Dips <- DipsAll
  Scales <- ScAll
INVARIANT WellPosed
INVARIANT Recovers
POSTCONDITION EmitAll
