------------------------------ MODULE TraceSlerp ------------------------------
(* Trace validation for SlerpArray: sequences of remove_jumps / slerp_nan calls on a *)
(* real QuaternionArray, each logged at its return with the abstracted rows.          *)
EXTENDS SlerpArray
Traces == ndJsonDeserialize(IOEnv.TRACE_FILE)
VARIABLES tid, l
tvars == <<vars, tid, l>>
ASSUME TLCSet(1, [t \in 1..Len(Traces) |-> 0])
ToFun(s) == [ i \in Rows |-> s[i] ]
TraceInit == /\ tid \in 1..Len(Traces) /\ l = 1
             /\ sg = ToFun(Traces[tid].sg) /\ nn = ToFun(Traces[tid].nn)
             /\ filled = {} /\ last = "init"
Ev == Traces[tid].events[l]
IsEvent(name) == l <= Len(Traces[tid].events) /\ Ev.act = name /\ l' = l + 1 /\ UNCHANGED tid
(* the sign of a NaN row is not observable *)
Logged == /\ nn' = ToFun(Ev.nn) /\ \A i \in Rows : ~nn'[i] => sg'[i] = Ev.sg[i]
TRJ == IsEvent("RemoveJumps") /\ RemoveJumps /\ Logged
TSN == IsEvent("SlerpNan") /\ SlerpNan(Ev.inplace) /\ Logged
(* a preview: the object is logged unchanged, the returned rows are the filled array *)
TPV == /\ IsEvent("Preview") /\ Preview
       /\ nn = ToFun(Ev.nn) /\ \A i \in Rows : ~nn[i] => sg[i] = Ev.sg[i]
       /\ \A i \in Rows : Ev.rsg[i] = SNsg(sg, nn)[i]
TPK == IsEvent("Poke") /\ Poke(Ev.row) /\ Logged
TraceNext == TRJ \/ TSN \/ TPV \/ TPK
TraceSpec == TraceInit /\ [][TraceNext]_tvars
(* a state that violates an invariant is pruned and does not count as progress (an INVARIANT in the cfg would stop
   the whole batch at the first violation; priming the invariants into the actions is an order of magnitude slower) *)
TraceInv == NoJumpAfterRJ /\ FilledContinuesLeft /\ NoJumpBetweenValid
Progress == TraceInv /\ (LET f == TLCGet(1) IN IF f[tid] < l THEN TLCSet(1, [f EXCEPT ![tid] = l]) ELSE TRUE)
Accepted == LET f == TLCGet(1) IN
            \A t \in 1..Len(Traces) : \/ f[t] = Len(Traces[t].events) + 1
                                      \/ PrintT(<<"REJECTED", t, f[t]>>) /\ FALSE
=============================================================================
