--------------------------- MODULE TraceCallerMemory ---------------------------
(* every observed public call, with the content ids of its array arguments before and *)
(* after the call and the content id of its result, must be a Call step                *)
EXTENDS CallerMemory
Traces == ndJsonDeserialize(IOEnv.TRACE_FILE)
VARIABLES tid, l
tvars == <<vars, tid, l>>
ASSUME TLCSet(1, [t \in 1..Len(Traces) |-> 0])
Empty == {}
Ev == Traces[tid].events[l]
NArgs(e) == Len(e.before)
TraceInit == /\ tid \in 1..Len(Traces) /\ l = 1
             /\ mem = [b \in {} |-> ""] /\ memo = << >> /\ last = [f |-> None]
(* the harness hands fresh buffers to every call: bind them, then take the Call step *)
TCall == /\ l <= Len(Traces[tid].events) /\ l' = l + 1 /\ UNCHANGED tid
         /\ LET e == Ev
                k == << e.f, e.before >>
            IN  /\ e.after = e.before                                            \* no caller buffer changed
                /\ (Known(k) => memo[ResultOf(k)][2] = e.res)                     \* same contents => same result
                /\ memo' = IF Known(k) THEN memo ELSE Append(memo, << k, e.res >>)
                /\ mem' = mem
                /\ last' = [f |-> e.f, args |-> e.before, res |-> e.res]
TraceSpec == TraceInit /\ [][TCall]_tvars
(* a state that violates an invariant is pruned and does not count as progress (an INVARIANT in the cfg would stop
   the whole batch at the first violation; priming the invariants into the actions is an order of magnitude slower) *)
TraceInv == Repeatable
Progress == TraceInv /\ (LET f == TLCGet(1) IN IF f[tid] < l THEN TLCSet(1, [f EXCEPT ![tid] = l]) ELSE TRUE)
Accepted == LET f == TLCGet(1) IN
            \A t \in 1..Len(Traces) : \/ f[t] = Len(Traces[t].events) + 1
                                      \/ PrintT(<<"REJECTED", t, f[t]>>) /\ FALSE
=============================================================================
