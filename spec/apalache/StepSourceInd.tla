---------------------------- MODULE StepSourceInd ----------------------------
(* Unbounded version of StepSource for Apalache: any own step, any named steps, any number of calls.                     *)
(*   apalache-mc check --init=IndInit --inv=IndInv --length=1 StepSourceInd.tla      (IndInv is inductive; pre-states with <= 4 calls: Gen(4)) *)
(*   apalache-mc check --init=Init --inv=IndInv --length=0 StepSourceInd.tla         (Init => IndInv)                     *)
EXTENDS Integers, Sequences, Apalache

VARIABLES
  \* @type: Int;
  own,
  \* @type: Int;
  own0,
  \* @type: Seq(Int);
  calls,
  \* @type: Seq(Int);
  used

Init == own \in Nat /\ own >= 1 /\ own0 = own /\ calls = <<>> /\ used = <<>>
Call(a) == /\ calls' = Append(calls, a)
           /\ used'  = Append(used, IF a = 0 THEN own ELSE a)
           /\ UNCHANGED <<own, own0>>
Next == \E a \in Nat : Call(a)

ExplicitWins == \A i \in DOMAIN calls : calls[i] # 0 => used[i] = calls[i]
DefaultIsOwn == \A i \in DOMAIN calls : calls[i] = 0 => used[i] = own
NoMemory     == \A i, j \in DOMAIN calls : calls[i] = calls[j] => used[i] = used[j]
OwnNeverMoves == own = own0
IndInv == /\ own \in Nat /\ own >= 1 /\ Len(used) = Len(calls) /\ OwnNeverMoves
          /\ \A i \in DOMAIN calls : calls[i] \in Nat
          /\ ExplicitWins /\ DefaultIsOwn /\ NoMemory
IndInit == /\ own \in Nat /\ own0 \in Nat
           /\ calls = Gen(4) /\ used = Gen(4)
           /\ IndInv
=============================================================================
