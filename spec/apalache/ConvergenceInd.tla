--------------------------- MODULE ConvergenceInd ---------------------------
(* Unbounded version of ConvergenceMonitor for Apalache: the same Init / Observe over ALL naturals (no MaxErr, any budget),  *)
(* and an inductive invariant that implies Bounded and Settled.  Checked with                                              *)
(*   apalache-mc check --init=IndInit --inv=IndInv --length=1 ConvergenceInd.tla      (IndInv is inductive)                 *)
(*   apalache-mc check --init=Init --inv=IndInv --length=0 ConvergenceInd.tla         (Init => IndInv)                      *)
EXTENDS Integers

VARIABLES
  \* @type: Int;
  k,
  \* @type: Int;
  err,
  \* @type: Int;
  init,
  \* @type: Int;
  tol,
  \* @type: Int;
  budget,
  \* @type: Str;
  phase

Max(a, b) == IF a >= b THEN a ELSE b

Init == /\ init \in Nat /\ tol \in Nat /\ tol >= 1 /\ budget \in Nat /\ budget >= 1
        /\ k = 0 /\ err = init /\ phase = "converging"
Observe(e) == /\ (k + 1 >= budget => (e <= tol /\ e <= Max(init, tol)))
              /\ k' = k + 1 /\ err' = e
              /\ phase' = IF k + 1 >= budget THEN "settled" ELSE "converging"
              /\ UNCHANGED <<init, tol, budget>>
Next == \E e \in Nat : Observe(e)

Bounded == phase = "settled" => err <= Max(init, tol)
Settled == phase = "settled" => err <= tol
TypeOK  == /\ k \in Nat /\ err \in Nat /\ init \in Nat /\ tol \in Nat /\ budget \in Nat /\ tol >= 1 /\ budget >= 1
           /\ phase \in {"converging", "settled"}
IndInv  == /\ TypeOK /\ Bounded /\ Settled
           /\ (phase = "settled" <=> k >= budget)
IndInit == IndInv
=============================================================================
