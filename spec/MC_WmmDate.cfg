SPECIFICATION Spec
INVARIANT EpochContains
INVARIANT CalendarInItsEpoch
POSTCONDITION EmitAll
