-------------------------------- MODULE WmmDate --------------------------------
(* C14 (1): which coefficient file answers a date, and how far its secular variation is  *)
(* advanced.  Time is counted in TENTHS of a year (the grid the model is evaluated on).    *)
(*   decimal dates:   t in 20150..20300 (tenths)                                           *)
(*   calendar dates:  (year, day of year); the decimal year is year + (day-1)/days(year),  *)
(*                    rounded to a tenth                                                   *)
(* Model(t): WMM2015 before 2020.0, WMM2020 before 2025.0, WMM2025 afterwards;  dt = t - epoch. *)
EXTENDS Integers, TLC, Json, IOUtils, SequencesExt

Epoch(t) == IF t < 20200 THEN 20150 ELSE IF t < 20250 THEN 20200 ELSE 20250
Dt(t)    == t - Epoch(t)
IsLeap(y) == (y % 4 = 0 /\ y % 100 # 0) \/ y % 400 = 0
Days(y)  == IF IsLeap(y) THEN 366 ELSE 365
(* tenths of a year elapsed at the START of day d (1-based), rounded to nearest; a tie or a    *)
(* value within 1/20 of a day's worth of a rounding boundary is AMBIGUOUS: float rounding of   *)
(* the decimal year may fall either way, and the property only speaks about the tenth grid     *)
TenthsX2N(y, d) == 20 * (d - 1)               \* 2 * 10 * (d-1), over Days(y): twice the tenths
RoundTenth(y, d) == (TenthsX2N(y, d) + Days(y)) \div (2 * Days(y))
Ambiguous(y, d) == LET r == (TenthsX2N(y, d) + Days(y)) % (2 * Days(y)) IN r = 0 \/ r = 2 * Days(y) - 1 \/ r = 1
CalTenth(y, d) == 10 * y + RoundTenth(y, d)

VARIABLES kind, t, y, d
vars == <<kind, t, y, d>>
Init == \/ kind = "decimal" /\ t \in 20150..20300 /\ y = 0 /\ d = 0
        \/ kind = "calendar" /\ y \in 2015..2030 /\ d \in 1..366 /\ d <= Days(y) /\ t = CalTenth(y, d)
Spec == Init /\ [][UNCHANGED vars]_vars

(* the epoch contains the date; dt is within one five-year span (six at the open end) *)
EpochContains == Epoch(t) <= t /\ (t < 20250 => t < Epoch(t) + 50) /\ Dt(t) >= 0
(* a calendar date is answered by the file whose epoch contains the DATE ITSELF (every day of year y   *)
(* lies before y+1.0, so that is the epoch of the start of its year), advanced to the date's tenth:      *)
(* for the last days of 2019 and 2024 this is the OLD model advanced by the full 5.0 years -- a state no  *)
(* decimal date on the grid can reach (TLC's counterexample 2019-12-14 to the first version of this spec) *)
CalEpoch(yy) == Epoch(10 * yy)
CalDt(yy, dd) == CalTenth(yy, dd) - CalEpoch(yy)
CalendarInItsEpoch == kind = "calendar" => (CalEpoch(y) <= 10 * y /\ CalDt(y, d) >= 0 /\ CalDt(y, d) <= (IF y >= 2025 THEN 60 ELSE 50))
=============================================================================
