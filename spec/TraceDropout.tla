----------------------------- MODULE TraceDropout -----------------------------
(* Trace validation for DropoutMonitor: one trace = one run of a real filter over a    *)
(* faulted history; one event per slot with the observed outcome and closeness.        *)
EXTENDS DropoutMonitor
Traces == ndJsonDeserialize(IOEnv.TRACE_FILE)
VARIABLES tid, l
tvars == <<mvars, tid, l>>
ASSUME TLCSet(1, [t \in 1..Len(Traces) |-> 0])
AnyCfg == [f |-> "any"]
TraceInit == /\ tid \in 1..Len(Traces) /\ l = 1
             /\ pattern = [ i \in 1..NSlots |-> Traces[tid].pattern[i] ]
             /\ k = 0 /\ since = Recover /\ status = "running" /\ near = TRUE
Ev == Traces[tid].events[l]
(* the cfg-dependent part (which faults are visible) is logged with the trace: uses_acc/mag/gyr *)
VisibleT(fk) == \/ (Traces[tid].uses_acc /\ Zeroes(fk, "acc")) \/ (Traces[tid].uses_mag /\ Zeroes(fk, "mag"))
                \/ (Traces[tid].uses_gyr /\ Zeroes(fk, "gyr"))
TSlot == /\ l <= Len(Traces[tid].events) /\ l' = l + 1 /\ UNCHANGED tid
         /\ status = "running" /\ k < NSlots
         /\ LET fk == pattern[k + 1] vis == VisibleT(fk) IN
            /\ Ev.outcome \in (IF vis THEN {"Skipped", "Rejected", "Ok"} ELSE {"Ok"})
            /\ since' = IF vis THEN 0 ELSE since + 1
            /\ ((since' >= Recover /\ pattern[1] = "ok") => Ev.close)
            /\ ((vis /\ near /\ pattern[1] = "ok" /\ Ev.outcome # "Rejected") => Ev.held)
            /\ status' = IF Ev.outcome = "Rejected" THEN "rejected" ELSE "running"
         /\ near' = Ev.close
         /\ k' = k + 1 /\ UNCHANGED pattern
TraceSpec == TraceInit /\ [][TSlot]_tvars
Progress == LET f == TLCGet(1) IN IF f[tid] < l THEN TLCSet(1, [f EXCEPT ![tid] = l]) ELSE TRUE
Accepted == LET f == TLCGet(1) IN
            \A t \in 1..Len(Traces) : \/ f[t] = Len(Traces[t].events) + 1
                                      \/ PrintT(<<"REJECTED", t, f[t]>>) /\ FALSE
=============================================================================
