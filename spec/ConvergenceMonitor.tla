-------------------------- MODULE ConvergenceMonitor --------------------------
(* C05: the safety automaton of "converges within a bounded number of samples and    *)
(* then stays there; the error never exceeds the initial error".                      *)
(* A run is observed every Stride samples; errors are integers (micro-radians).       *)
(* phase: "converging" until the budget is spent, then "settled" (absorbing): from    *)
(* then on every observation -- in particular the final one -- must be within Tol and  *)
(* not above max(initial error, Tol).  (The property bounds the FINAL error by the      *)
(* initial one, not the transient: Madgwick's MARG correction, whose magnetic reference *)
(* follows the estimate, passes through 180 degrees before converging from 175.)        *)
EXTENDS Integers, Sequences, TLC, Json, IOUtils

CONSTANTS MaxErr          \* model-checking bound on error values (the trace spec does not use it)
VARIABLES k, err, init, tol, budget, phase
vars == <<k, err, init, tol, budget, phase>>

Max(a, b) == IF a >= b THEN a ELSE b

Init == /\ init \in 0..MaxErr /\ tol \in 1..MaxErr /\ budget \in 1..3
        /\ k = 0 /\ err = init /\ phase = "converging"
(* one observation: the filter reports error e at observation index k+1 *)
Observe(e) == /\ (k + 1 >= budget => (e <= tol /\ e <= Max(init, tol)))   \* converged within the budget, and stays
              /\ k' = k + 1 /\ err' = e
              /\ phase' = IF k + 1 >= budget THEN "settled" ELSE "converging"
              /\ UNCHANGED <<init, tol, budget>>
Next == \E e \in 0..MaxErr : Observe(e)
Spec == Init /\ [][Next]_vars

Bounded  == phase = "settled" => err <= Max(init, tol)
Settled  == phase = "settled" => err <= tol
Absorbing == [][ phase = "settled" => phase' = "settled" ]_vars
=============================================================================
