---------------------------- MODULE MC_Vectorised ----------------------------
EXTENDS Vectorised
Emit(S) == ndJsonSerialize(IOEnv.OUT_FILE, SetToSeq(S)) /\ (TRUE \/ phase = "")
(* the non-default forms are exercised on the short arrangements only *)
EmitAll == Emit({ [op |-> p, arr |-> a, form |-> "float"] : p \in TwinPairs, a \in Arrangements }
                \cup { [op |-> p, arr |-> a, form |-> f] : p \in (MetricPairs \cup EstimatorPairs \cup ConversionPairs) \ AsGivenPairs, a \in { x \in Arrangements : Len(x) <= 2 }, f \in Forms \ {"float", "near-unit"} }
                \cup { [op |-> p, arr |-> a, form |-> "near-unit"] : p \in AsGivenPairs, a \in { x \in Arrangements : Len(x) <= 2 } })
NsThorough == {1, 2, 5, 7}
=============================================================================
