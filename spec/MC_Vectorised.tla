---------------------------- MODULE MC_Vectorised ----------------------------
EXTENDS Vectorised
Emit(S) == ndJsonSerialize(IOEnv.OUT_FILE, SetToSeq(S)) /\ (TRUE \/ phase = "")
EmitAll == Emit({ [op |-> p, arr |-> a] : p \in TwinPairs, a \in Arrangements })
=============================================================================
