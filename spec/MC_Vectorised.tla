---------------------------- MODULE MC_Vectorised ----------------------------
EXTENDS Vectorised
Emit(S) == ndJsonSerialize(IOEnv.OUT_FILE, SetToSeq(S)) /\ (TRUE \/ phase = "")
(* the non-default forms are exercised on the short arrangements only *)
EmitAll == Emit({ [op |-> p, arr |-> a, form |-> "float"] : p \in TwinPairs, a \in Arrangements }
                \cup { [op |-> p, arr |-> a, form |-> f] : p \in (MetricPairs \cup EstimatorPairs \cup ConversionPairs) \ AsGivenPairs, a \in { x \in Arrangements : Len(x) <= 2 }, f \in {"int-dtype", "scaled"} }
                \cup { [op |-> p, arr |-> a, form |-> "near-unit"] : p \in AsGivenPairs, a \in { x \in Arrangements : Len(x) <= 2 } }
                \cup { [op |-> p, arr |-> a, form |-> f] : p \in EstimatorPairs, a \in { x \in Arrangements : Len(x) = 2 \/ (Len(x) = 5 /\ x[1] = x[2]) },
                                                            f \in {"held-first", "held-second"} }
                \cup { [op |-> p, arr |-> a, form |-> "nan-entry"] : p \in NanPairs, a \in { x \in Arrangements : Len(x) <= 2 } })
NsThorough == {1, 2, 3, 4, 5, 7}
=============================================================================
