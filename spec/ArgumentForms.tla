---------------------------- MODULE ArgumentForms ----------------------------
(* Every property of the list quantifies over "all inputs".  The library takes an    *)
(* input VALUE in several FORMS: a float array may come as an ndarray, a (nested)     *)
(* list, a tuple, a strided view into a larger buffer, a Fortran-ordered matrix, a    *)
(* read-only array; an option string in any letter case where the callable validates  *)
(* it case-insensitively.  The form is not part of the value:                         *)
(*                                                                                    *)
(*     a call is a function of the VALUES of its arguments (FormBlind), and           *)
(*     it never writes through an argument (ReadOnlySafe).                            *)
(*                                                                                    *)
(* The machine below holds one call: the kinds of its form-carrying arguments, the    *)
(* form each one currently has, and the class of the answer (an uninterpreted         *)
(* function of the values only).  Reform changes the form of one argument; Bulk       *)
(* changes all array arguments at once.  TLC enumerates every reachable form vector   *)
(* within the bound (at most one argument off the baseline form, or all arrays in one *)
(* common form) and emits them; the harness (vf/forms.py) replays each vector on the  *)
(* real callables while the property checks drive them, and compares answers.         *)
EXTENDS Naturals, Sequences, FiniteSets, TLC, Json, IOUtils, SequencesExt

CONSTANTS MaxArity

Kinds == {"vec", "mat", "str", "num"}
Base(k) == IF k = "str" THEN "as-given" ELSE IF k = "num" THEN "float" ELSE "ndarray"
FormsOf(k) == CASE k = "vec" -> {"ndarray", "list", "tuple", "strided", "readonly"}
                [] k = "mat" -> {"ndarray", "list", "F-order", "strided", "readonly"}
                [] k = "str" -> {"as-given", "lower", "upper"}
                \* a real-valued scalar parameter given as a Python float: the same number as a NumPy scalar, as a 0-d array, and -- when
                \* its value is integral -- as a Python int (frequency=100, an angle of 90)
                [] k = "num" -> {"float", "np.float64", "0-d", "int"}
BulkForms == {"list", "strided"}      \* forms every array kind has

VARIABLES name,    \* the name the callable is reached by: its principal name or a documented synonym (to_q / to_quaternion, ecef2lla / ecef2geodetic, ...)
          kinds,   \* sequence of argument kinds
          forms,   \* sequence of current forms
          answer   \* class of the answer: depends on the values only, so it is a constant of the behaviour
vars == <<name, kinds, forms, answer>>

KindVectors == UNION { [1..n -> Kinds] : n \in 1..MaxArity }
Init == /\ name = "principal"
        /\ kinds \in KindVectors
        /\ forms = [i \in DOMAIN kinds |-> Base(kinds[i])]
        /\ answer = "value-of-the-arguments"
IsBase == \A i \in DOMAIN kinds : forms[i] = Base(kinds[i])
Reform(i, f) == /\ IsBase /\ f \in FormsOf(kinds[i]) /\ f # Base(kinds[i])
                /\ forms' = [forms EXCEPT ![i] = f]
                /\ UNCHANGED <<name, kinds, answer>>
(* the same call under the other documented name (arguments as they are) *)
Rename == IsBase /\ name = "principal" /\ name' = "synonym" /\ UNCHANGED <<kinds, forms, answer>>
IsArr(k) == k \in {"vec", "mat"}
Bulk(f) == /\ IsBase
           /\ Cardinality({i \in DOMAIN kinds : IsArr(kinds[i])}) > 1
           /\ forms' = [i \in DOMAIN kinds |-> IF IsArr(kinds[i]) THEN f ELSE forms[i]]
           /\ UNCHANGED <<name, kinds, answer>>
Next == (\E i \in DOMAIN kinds : \E f \in FormsOf(kinds[i]) : Reform(i, f)) \/ (\E f \in BulkForms : Bulk(f)) \/ Rename
Spec == Init /\ [][Next]_vars

TypeOK == /\ name \in {"principal", "synonym"} /\ kinds \in KindVectors /\ DOMAIN forms = DOMAIN kinds
          /\ \A i \in DOMAIN kinds : forms[i] \in FormsOf(kinds[i])
FormBlind == [][answer' = answer]_vars
(* within the bound: one argument off the baseline, or all arrays in one common bulk form *)
Bounded == \/ Cardinality({i \in DOMAIN kinds : forms[i] # Base(kinds[i])}) <= 1
           \/ \E f \in BulkForms : \A i \in DOMAIN kinds : IF IsArr(kinds[i]) THEN forms[i] = f ELSE forms[i] = Base(kinds[i])

(* the form vectors the harness replays, per kind vector (the reachable non-baseline states) *)
VectorsOf(ks) == { [i \in DOMAIN ks |-> IF i = j THEN f ELSE Base(ks[i])] : j \in DOMAIN ks, f \in UNION {FormsOf(k) : k \in Kinds} }
Reachable(ks) == { fv \in VectorsOf(ks) : /\ \A i \in DOMAIN ks : fv[i] \in FormsOf(ks[i])
                                          /\ \E i \in DOMAIN ks : fv[i] # Base(ks[i]) }
                 \cup (IF Cardinality({i \in DOMAIN ks : IsArr(ks[i])}) > 1
                       THEN { [i \in DOMAIN ks |-> IF IsArr(ks[i]) THEN f ELSE Base(ks[i])] : f \in BulkForms } ELSE {})
Table == { [kinds |-> ks, forms |-> SetToSeq(Reachable(ks))] : ks \in KindVectors }
(* every emitted vector is a state of the machine and every non-baseline state is emitted *)
EmittedIsReachable == IsBase \/ forms \in Reachable(kinds)
EmitTable == ndJsonSerialize(IOEnv.OUT_FILE, SetToSeq(Table)) /\ (TRUE \/ kinds = <<>>)
=============================================================================
