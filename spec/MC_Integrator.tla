----------------------------- MODULE MC_Integrator -----------------------------
EXTENDS Integrator
StartsQ == { <<1,0,0,0>>, <<3,1,-2,1>>, <<1,2,2,-3>>, <<0,1,1,0>>, <<2,-1,0,3>> }
StepsGroup == TwoO
StepsRational == { <<12,1,0,0>>, <<12,1,-2,2>>, <<11,-2,3,3>>, <<9,0,0,-1>>, <<10,1,1,1>>, <<7,2,-1,2>> }
HR == { << <<1,0,0>>, 3 >>, << <<1,-2,2>>, 3 >>, << <<0,1,-1>>, 3 >>, << <<-1,1,1>>, 2 >>, << <<0,0,-1>>, 2 >>, << <<2,-1,2>>, 3 >> }
Emit(S) == ndJsonSerialize(IOEnv.OUT_FILE, SetToSeq(S)) /\ (TRUE \/ k = 0)
Closed == { [kind |-> "closed", q0 |-> a, u |-> s, k |-> n, want |-> Mul(a, PowQ(s, n))] : a \in StartsQ, s \in StepsRational, n \in {1, 2, 3} }
First  == { [kind |-> "first", q |-> a, w |-> h[1], d |-> h[2], want |-> FirstOrder(a, h[1], h[2]), wantconj |-> FirstOrderConj(a, h[1], h[2])]
            : a \in StartsQ, h \in HR }
Ser    == { [kind |-> "series", q |-> a, w |-> h[1], d |-> h[2], order |-> K, want |-> Series(K, a, h[1], h[2])]
            : a \in StartsQ, h \in HR, K \in 0..6 }
EmitAll == Emit(Closed \cup First \cup Ser)
=============================================================================
