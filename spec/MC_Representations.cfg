SPECIFICATION Spec
CONSTANTS
  HalfAngles <- HAs
  PitchHalf <- PH
  AxisSet <- AX
  TurnHalf <- TH
  Exponents <- EX
INVARIANT Denotes
INVARIANT RpyRoundTrip
INVARIANT AxangRoundTrip
INVARIANT AxangSameRotation
INVARIANT NegativeReadsTheLongWay
INVARIANT PowerLaws
INVARIANT EulerProduct
POSTCONDITION EmitAll
