------------------------------- MODULE WmmSynth -------------------------------
(* C14 (2): the spherical-harmonic synthesis, term by term, in exact rationals.        *)
(*                                                                                    *)
(* DEFINITIONS (what "Schmidt semi-normalised associated Legendre function" means):     *)
(*   P_n^m(mu) = cos^m(phi') * Q_n^m(mu),   mu = sin(phi'),                              *)
(*   Q_n^m(mu) = sum_k (-1)^k (2n-2k)! / (2^n k! (n-k)! (n-m-2k)!) mu^(n-m-2k)          *)
(*   (no Condon-Shortley phase), Schmidt factor^2 = (2 - [m=0]) (n-m)!/(n+m)!.          *)
(* ALGORITHM (what the implementation does): Gauss-normalised functions by the           *)
(*   recursion  P[n,n] = cos P[n-1,n-1];  P[m,n] = mu P[m,n-1] - k[m,n] P[m,n-2],         *)
(*   k[m,n] = ((n-1)^2 - m^2)/((2n-1)(2n-3)), scaled by S[m,n] built from                 *)
(*   S[0,n] = S[0,n-1](2n-1)/n,  S[m,n]^2 = S[m-1,n]^2 (n-m+1)([m=1]+1)/(n+m),            *)
(*   and the same for the derivative with respect to the colatitude.                     *)
(* TLC checks  ALGORITHM = DEFINITION  (squares and signs, since S is a square root) at   *)
(* Pythagorean latitudes up to the degree that fits 32-bit integers; the harness          *)
(* evaluates the DEFINITION operators for degree 12 with a fractions.Fraction mirror       *)
(* that is itself checked against TLC's values on this grid.                              *)
EXTENDS ExactArith, TLC, Json, IOUtils, SequencesExt

Fact(n) == CASE n = 0 -> 1 [] n = 1 -> 1 [] n = 2 -> 2 [] n = 3 -> 6 [] n = 4 -> 24 [] n = 5 -> 120 [] n = 6 -> 720
             [] n = 7 -> 5040 [] n = 8 -> 40320 [] n = 9 -> 362880 [] n = 10 -> 3628800 [] n = 11 -> 39916800 [] n = 12 -> 479001600
RECURSIVE RatPow(_, _)
RatPow(x, e) == IF e = 0 THEN <<1, 1>> ELSE RatMul(x, RatPow(x, e - 1))
Pow2(e) == 2 ^ e

(* ------------------------------- definition ------------------------------- *)
CoefQ(n, m, k) == RatN(<< (IF k % 2 = 0 THEN 1 ELSE -1) * (Fact(2*n - 2*k) \div (Fact(n - k))), Pow2(n) * Fact(k) * Fact(n - m - 2*k) >>)
RECURSIVE SumQ(_, _, _, _)
SumQ(n, m, k, mu) == IF n - m - 2*k < 0 THEN <<0, 1>>
                     ELSE RatAdd(RatMul(CoefQ(n, m, k), RatPow(mu, n - m - 2*k)), SumQ(n, m, k + 1, mu))
Q(n, m, mu)  == SumQ(n, m, 0, mu)
(* derivative of Q with respect to mu *)
RECURSIVE SumdQ(_, _, _, _)
SumdQ(n, m, k, mu) == IF n - m - 2*k - 1 < 0 THEN <<0, 1>>
                      ELSE RatAdd(RatMul(RatMul(CoefQ(n, m, k), <<n - m - 2*k, 1>>), RatPow(mu, n - m - 2*k - 1)), SumdQ(n, m, k + 1, mu))
dQ(n, m, mu) == SumdQ(n, m, 0, mu)
Pdef(n, m, mu, c)  == RatMul(RatPow(c, m), Q(n, m, mu))
(* d/dphi' [c^m Q(mu)] = -m c^(m-1) mu Q + c^(m+1) Q' *)
dPdef(n, m, mu, c) == RatAdd(RatMul(<<-m, 1>>, RatMul(RatMul(IF m = 0 THEN <<0,1>> ELSE RatPow(c, m - 1), mu), Q(n, m, mu))),
                             RatMul(RatPow(c, m + 1), dQ(n, m, mu)))
Schmidt2(n, m) == RatN(<< (IF m = 0 THEN 1 ELSE 2) * Fact(n - m), Fact(n + m) >>)

(* -------------------------------- algorithm -------------------------------- *)
K(m, n) == RatN(<< (n - 1) * (n - 1) - m * m, (2*n - 1) * (2*n - 3) >>)
RECURSIVE Palg(_, _, _, _), dPalg(_, _, _, _)
Palg(m, n, mu, c) == IF n = 0 /\ m = 0 THEN <<1, 1>>
                     ELSE IF m > n \/ n < 0 THEN <<0, 1>>
                     ELSE IF n = m THEN RatMul(c, Palg(m - 1, n - 1, mu, c))
                     ELSE RatSub(RatMul(mu, Palg(m, n - 1, mu, c)), RatMul(K(m, n), Palg(m, n - 2, mu, c)))
dPalg(m, n, mu, c) == IF n = 0 /\ m = 0 THEN <<0, 1>>
                      ELSE IF m > n \/ n < 0 THEN <<0, 1>>
                      ELSE IF n = m THEN RatAdd(RatMul(c, dPalg(m - 1, n - 1, mu, c)), RatMul(mu, Palg(m - 1, n - 1, mu, c)))
                      ELSE RatSub(RatSub(RatMul(mu, dPalg(m, n - 1, mu, c)), RatMul(c, Palg(m, n - 1, mu, c))), RatMul(K(m, n), dPalg(m, n - 2, mu, c)))
RECURSIVE S0(_), S2alg(_, _)
S0(n) == IF n = 0 THEN <<1, 1>> ELSE RatMul(S0(n - 1), << 2*n - 1, n >>)
S2alg(m, n) == IF m = 0 THEN RatMul(S0(n), S0(n))
               ELSE RatMul(S2alg(m - 1, n), RatN(<< (n - m + 1) * (IF m = 1 THEN 2 ELSE 1), n + m >>))

CONSTANTS MaxN, Lats          \* Lats: Pythagorean <<cos, sin, hyp>>
VARIABLES n, m, lat
vars == <<n, m, lat>>
Init == n \in 1..MaxN /\ m \in 0..MaxN /\ m <= n /\ lat \in Lats
Spec == Init /\ [][UNCHANGED vars]_vars
Mu == RatN(<< lat[2], lat[3] >>)
Cc == RatN(<< lat[1], lat[3] >>)
Sq(x) == RatMul(x, x)
SgnR(x) == Sgn(x[1])
(* S[m,n] P_alg[m,n] = Schmidt(n,m) P_def(n,m).  S is a square root, so the statement is made on *)
(* the ratio  rho = P_def / P_alg  (a positive rational that does not depend on the latitude):      *)
(* rho^2 = S_alg^2 / Schmidt^2.  Where P_alg vanishes, P_def must vanish too.                       *)
RatioLaw(pd, pa) == IF pa[1] = 0 THEN pd[1] = 0
                    ELSE LET rho == RatDiv(pd, pa) IN rho[1] > 0 /\ RatMul(rho, rho) = RatDiv(S2alg(m, n), Schmidt2(n, m))
AlgorithmIsDefinition == RatioLaw(Pdef(n, m, Mu, Cc), Palg(m, n, Mu, Cc))
(* the algorithm's derivative is the derivative with respect to the COLATITUDE: dP_alg = - d/dphi' *)
DerivativeIsColatitude == RatioLaw(RatMul(<<-1, 1>>, dPdef(n, m, Mu, Cc)), dPalg(m, n, Mu, Cc))
=============================================================================
