--------------------------- MODULE MC_DropoutMonitor ---------------------------
EXTENDS DropoutMonitor
Emit(S) == ndJsonSerialize(IOEnv.OUT_FILE, SetToSeq(S)) /\ (TRUE \/ k = 0)
EmitPatterns == Emit({ [pattern |-> p] : p \in Patterns })
MargCfg == [f |-> "Madgwick", arch |-> "MARG", frame |-> "-", rep |-> "quaternion", mode |-> "-", gain |-> "default", rate |-> "100Hz"]
=============================================================================
