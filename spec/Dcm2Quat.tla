------------------------------ MODULE Dcm2Quat ------------------------------
(* C02: the seven matrix -> quaternion methods as case analyses over the exact  *)
(* matrix  R = Mn / N  (Mn integer 3x3, N > 0).  Every method's output is given  *)
(* as a DIRECTION (integer 4-vector, scalar first) together with its sign; the   *)
(* implementation returns that direction normalised.  All models are sqrt-free:  *)
(* a positive factor is dropped, never a sign.                                   *)
(* Exact ties of the model (Shepperd's argmax, a vanishing component under       *)
(* sign()) are nondeterministic: rounding decides them in the code either way.   *)
EXTENDS QuatAlg

Methods == {"shepperd", "chiaverini", "hughes", "sarabandi", "itzhack1", "itzhack2", "itzhack3"}

Tr(Mn) == Mn[1][1] + Mn[2][2] + Mn[3][3]
(* 4 N q_i q_j style combinations of the matrix *)
Dw(Mn, N) == N + Mn[1][1] + Mn[2][2] + Mn[3][3]         \* = 4 N w^2
Dx(Mn, N) == N + Mn[1][1] - Mn[2][2] - Mn[3][3]         \* = 4 N x^2
Dy(Mn, N) == N - Mn[1][1] + Mn[2][2] - Mn[3][3]
Dz(Mn, N) == N - Mn[1][1] - Mn[2][2] + Mn[3][3]
Awx(Mn) == Mn[3][2] - Mn[2][3]                          \* = 4 N w x
Awy(Mn) == Mn[1][3] - Mn[3][1]
Awz(Mn) == Mn[2][1] - Mn[1][2]
Sxy(Mn) == Mn[1][2] + Mn[2][1]                          \* = 4 N x y
Sxz(Mn) == Mn[3][1] + Mn[1][3]
Syz(Mn) == Mn[2][3] + Mn[3][2]

(* --------------------------------- Shepperd --------------------------------- *)
ShepU(Mn) == << Tr(Mn), Mn[1][1], Mn[2][2], Mn[3][3] >>
ShepBranches(Mn) == LET u == ShepU(Mn) IN { i \in 1..4 : \A j \in 1..4 : u[i] >= u[j] }
ShepOut(Mn, N, i) ==
    CASE i = 1 -> << Dw(Mn, N), Awx(Mn), Awy(Mn), Awz(Mn) >>
      [] i = 2 -> << Awx(Mn), Dx(Mn, N), Sxy(Mn), Sxz(Mn) >>
      [] i = 3 -> << Awy(Mn), Sxy(Mn), Dy(Mn, N), Syz(Mn) >>
      [] i = 4 -> << Awz(Mn), Sxz(Mn), Syz(Mn), Dz(Mn, N) >>
Shepperd(Mn, N) == { ShepOut(Mn, N, i) : i \in ShepBranches(Mn) }

(* ----------------- Chiaverini / Sarabandi: magnitudes and signs ---------------- *)
(* |q_i| = sqrt(D_i / (4N)); all four share the factor, so the direction is          *)
(* (sqrt Dw, s_x sqrt Dx, s_y sqrt Dy, s_z sqrt Dz).  To stay in integers the model   *)
(* uses  D_i * Dw = (A_wi)^2  (valid when w # 0):  direction = (Dw, Awx, Awy, Awz)    *)
(* scaled by 1/sqrt(Dw) > 0, and the code's sign rule sign(A_wi) is the sign of A_wi. *)
MagnitudeIdentity(Mn, N) == /\ Dx(Mn, N) * Dw(Mn, N) = Awx(Mn) * Awx(Mn)
                            /\ Dy(Mn, N) * Dw(Mn, N) = Awy(Mn) * Awy(Mn)
                            /\ Dz(Mn, N) * Dw(Mn, N) = Awz(Mn) * Awz(Mn)
Chiaverini(Mn, N) == { << Dw(Mn, N), Awx(Mn), Awy(Mn), Awz(Mn) >> }
(* Sarabandi's second arm:  nom/denom  with nom = sum of three squared combinations,  *)
(* denom = 3 - d.  Arm identity (what makes both arms equal): nom * N = D * (4N - D). *)
SarNomW(Mn) == Awx(Mn)*Awx(Mn) + Awy(Mn)*Awy(Mn) + Awz(Mn)*Awz(Mn)
SarNomX(Mn) == Awx(Mn)*Awx(Mn) + Sxy(Mn)*Sxy(Mn) + Sxz(Mn)*Sxz(Mn)
SarNomY(Mn) == Awy(Mn)*Awy(Mn) + Sxy(Mn)*Sxy(Mn) + Syz(Mn)*Syz(Mn)
SarNomZ(Mn) == Awz(Mn)*Awz(Mn) + Sxz(Mn)*Sxz(Mn) + Syz(Mn)*Syz(Mn)
SarArmIdentity(Mn, N) == /\ SarNomW(Mn) = Dw(Mn, N) * (4*N - Dw(Mn, N))
                         /\ SarNomX(Mn) = Dx(Mn, N) * (4*N - Dx(Mn, N))
                         /\ SarNomY(Mn) = Dy(Mn, N) * (4*N - Dy(Mn, N))
                         /\ SarNomZ(Mn) = Dz(Mn, N) * (4*N - Dz(Mn, N))
(* which arm fires for threshold eta = en/ed (ed > 0): d_i = (D_i - N)/N > eta        *)
SarArms(Mn, N, en, ed) ==
    << (Dw(Mn, N) - N) * ed > en * N, (Dx(Mn, N) - N) * ed > en * N,
       (Dy(Mn, N) - N) * ed > en * N, (Dz(Mn, N) - N) * ed > en * N >>
Sarabandi(Mn, N) == { << Dw(Mn, N), Awx(Mn), Awy(Mn), Awz(Mn) >> }

(* ---------------------------------- Hughes ---------------------------------- *)
(* ideal: identity only for trace exactly 3; otherwise (n, -(C - C^T)/(4n)), n > 0 *)
Hughes(Mn, N) == IF Tr(Mn) = 3 * N THEN { << 1, 0, 0, 0 >> }
                 ELSE { << Dw(Mn, N), Awx(Mn), Awy(Mn), Awz(Mn) >> }

(* -------------------------------- Bar-Itzhack -------------------------------- *)
(* K3 (numerators, times 3N) in the code's component order (x, y, z, w') with the   *)
(* code's final step  w = -w'.                                                     *)
K3(Mn) == << << Mn[1][1]-Mn[2][2]-Mn[3][3], Mn[2][1]+Mn[1][2], Mn[3][1]+Mn[1][3], Mn[2][3]-Mn[3][2] >>,
             << Mn[2][1]+Mn[1][2], Mn[2][2]-Mn[1][1]-Mn[3][3], Mn[3][2]+Mn[2][3], Mn[3][1]-Mn[1][3] >>,
             << Mn[3][1]+Mn[1][3], Mn[3][2]+Mn[2][3], Mn[3][3]-Mn[1][1]-Mn[2][2], Mn[1][2]-Mn[2][1] >>,
             << Mn[2][3]-Mn[3][2], Mn[3][1]-Mn[1][3], Mn[1][2]-Mn[2][1], Mn[1][1]+Mn[2][2]+Mn[3][3] >> >>
(* K2 (numerators, times 2N) *)
K2(Mn) == << << Mn[1][1]-Mn[2][2], Mn[2][1]+Mn[1][2], Mn[3][1], -Mn[3][2] >>,
             << Mn[2][1]+Mn[1][2], Mn[2][2]-Mn[1][1], Mn[3][2], Mn[3][1] >>,
             << Mn[3][1], Mn[3][2], -Mn[1][1]-Mn[2][2], Mn[1][2]-Mn[2][1] >>,
             << -Mn[3][2], Mn[3][1], Mn[1][2]-Mn[2][1], Mn[1][1]+Mn[2][2] >> >>
(* the eigenvector the code turns into the quaternion o: k = (o_x, o_y, o_z, -o_w) *)
KVec(o) == << o[2], o[3], o[4], -o[1] >>
IsEigen1(K, scale, o) == Mat4Vec(K, KVec(o)) = ScaleQ(scale, KVec(o))
=============================================================================
