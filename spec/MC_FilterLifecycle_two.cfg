\* C06: two instances, two configurations, three sample ids, all interleavings of Create / Update / Batch / Drop
SPECIFICATION SpecD
CONSTANTS
  Insts <- TwoInst
  SampleIds <- Ids3
  MaxLen = 3
  CfgSet <- AB
  FaultSet <- NoFaults
INVARIANT OneRowPerSample
INVARIANT FaultFreeIsOk
INVARIANT BatchEqualsStream
PROPERTY Isolation
