-------------------------- MODULE AttitudeMachine --------------------------
(* Two synchronised registers -- a quaternion and a rotation matrix -- that *)
(* the public API of ahrs keeps in step: every quaternion-side operation    *)
(* (product, conjugate, negation) has a matrix-side twin (matrix product,   *)
(* transpose, nothing).  C01 says the two registers always denote the same  *)
(* rotation, through every route that converts or multiplies; C09 says the  *)
(* quaternion side is the Hamilton algebra.                                 *)
(*                                                                          *)
(* q   : integer quaternion (its ray is the register content; sign kept)    *)
(* R   : <<numerator 3x3, denominator>> -- computed by MATRIX operations     *)
(*       only, never from q (this is what makes Faithful a theorem and not  *)
(*       a definition)                                                      *)
(* Routes (which copy of a formula the implementation uses) are action      *)
(* parameters: they do not change the abstract state, but each one is a     *)
(* distinct transition that the conformance harness replays.                *)
EXTENDS Grids, Dcm2Quat, TLC, Json, IOUtils, SequencesExt

CONSTANTS Gen,        \* operands offered to the product actions
          Start,      \* initial register contents
          VecSet,     \* vectors offered to the rotate action
          MaxDepth    \* bound on behaviour length (state constraint)

VARIABLES q, R, depth
vars == <<q, R, depth>>

AllMulRoutes  == {"product", "mul", "matmul", "q_prod", "q_prod[int-left]", "mult_L", "mult_R", "rotate_by", "rotate_by[int-list]"}
AllDcmRoutes  == {"Quaternion.to_DCM", "QuaternionArray.to_DCM", "DCM(q=)", "DCM.from_quaternion",
                  "DCM.from_quaternion[batch]", "q2R.v1", "q2R.v2", "q2R.v1[batch]", "q2R.v2[batch]",
                  \* the same quaternion held by an object in scalar-last storage, directly and through derived objects
                  "Quaternion[S].to_DCM", "neg(Quaternion[S]).to_DCM", "Quaternion[S].copy.to_DCM", "Quaternion[S].view.to_DCM",
                  \* a live object overwritten in place through its array interface; an integer-valued quaternion handed over as integers
                  "Quaternion[rewritten].to_DCM", "DCM(q=)[int-list]"}
AllRotRoutes  == {"Quaternion.rotate", "q_rot", "sandwich", "Quaternion[S].copy.rotate", "Quaternion[rewritten].rotate"}
AllConjRoutes == {"conjugate", "conj", "q_conj", "q_conj[batch]", "array_conjugate", "inverse", "Quaternion[S].copy.conjugate", "Quaternion[rewritten].conjugate"}
(* which routes a configuration distinguishes: all of them when behaviours are   *)
(* generated for replay, one when only the laws are model-checked                *)
CONSTANTS MulRoutes, DcmRoutes, RotRoutes, ConjRoutes
CONSTANTS QuatMethods      \* matrix -> quaternion methods offered to ToQuat (C02)
(* "[F-order]" / "[transposed-view]": the same matrix handed over in column-major memory (np.asfortranarray, the .T of its transpose) *)
Dispatchers == {"DCM.to_quaternion", "Quaternion(dcm=)", "QuaternionArray(DCM=)", "function",
                "DCM.to_quaternion[transposed-view]", "Quaternion(dcm=)[F-order]", "QuaternionArray(DCM=)[F-order]", "function[F-order]",
                \* the array dispatcher called as a method (returns the rows) and through the constructor without re-normalisation
                "QuaternionArray.from_DCM(inplace=False)", "QuaternionArray(DCM=, versors=False)"}

(* reduce a matrix register to lowest terms so that the state space closes *)
RedMat(num, den) ==
    LET g1 == GCD(GCD3(num[1][1], num[1][2], num[1][3]), GCD3(num[2][1], num[2][2], num[2][3]))
        g2 == GCD(g1, GCD(GCD3(num[3][1], num[3][2], num[3][3]), den))
    IN  << [i \in 1..3 |-> [j \in 1..3 |-> num[i][j] \div g2]], den \div g2 >>
MatOf(u) == RedMat(M(u), Norm2(u))

Init == /\ q \in Start
        /\ R = MatOf(q)          \* loading: the matrix register is given, not derived later
        /\ depth = 0

MulRight(route, v) == /\ q' = PrimQ(Mul(q, v))
                      /\ R' = LET B == MatOf(v) IN RedMat(MatMul(R[1], B[1]), R[2] * B[2])
                      /\ depth' = depth + 1
MulLeft(route, v)  == /\ q' = PrimQ(Mul(v, q))
                      /\ R' = LET B == MatOf(v) IN RedMat(MatMul(B[1], R[1]), R[2] * B[2])
                      /\ depth' = depth + 1
Conjugate(route)   == /\ q' = Conj(q)
                      /\ R' = << Transpose(R[1]), R[2] >>
                      /\ depth' = depth + 1
Negate             == /\ q' = NegQ(q)
                      /\ R' = R
                      /\ depth' = depth + 1
(* observation actions: conversion and rotation leave the registers alone *)
Convert(route)     == /\ UNCHANGED <<q, R>> /\ depth' = depth + 1
Rotate(route, v)   == /\ UNCHANGED <<q, R>> /\ depth' = depth + 1

(* C02: recover the quaternion register from the MATRIX register (never from q).  The   *)
(* closed-form methods are only required below a half-turn (w # 0).                      *)
InDomain(method) == method \in {"shepperd", "itzhack1", "itzhack2", "itzhack3"} \/ q[1] # 0
QuatOut(method) ==
    CASE method = "shepperd"   -> Shepperd(R[1], R[2])
      [] method = "chiaverini" -> Chiaverini(R[1], R[2])
      [] method = "sarabandi"  -> Sarabandi(R[1], R[2])
      [] method = "hughes"     -> Hughes(R[1], R[2])
      [] OTHER                 -> \* Bar-Itzhack: a unit eigenvector for eigenvalue 1, either sign
           { o \in {q, NegQ(q)} : IF method = "itzhack1" THEN IsEigen1(K2(R[1]), 2*R[2], o)
                                                         ELSE IsEigen1(K3(R[1]), 3*R[2], o) }
ToQuat(method, disp) == /\ InDomain(method)
                        /\ q' \in { PrimQ(o) : o \in QuatOut(method) }
                        /\ UNCHANGED R
                        /\ depth' = depth + 1

Next == \/ \E m \in QuatMethods, d \in Dispatchers : ToQuat(m, d)
        \/ \E r \in MulRoutes, v \in Gen : MulRight(r, v) \/ MulLeft(r, v)
        \/ \E r \in ConjRoutes : Conjugate(r)
        \/ Negate
        \/ \E r \in DcmRoutes : Convert(r)
        \/ \E r \in RotRoutes, v \in VecSet : Rotate(r, v)

Spec == Init /\ [][Next]_vars
Bound == depth < MaxDepth
ViewNoDepth == <<q, R>>

(* ------------------------------ invariants ------------------------------ *)
(* C01: the matrix register equals the matrix of the quaternion register *)
Faithful   == R = MatOf(q)
(* C01: it is a proper rotation *)
ProperRot  == /\ MatMul(R[1], Transpose(R[1])) = MatScale(R[2]*R[2], Ident3)
              /\ Cross3(R[1][1], R[1][2]) = Scale3(R[2], R[1][3])     \* det = +1 (no cubes: 32-bit)
              /\ R[2] > 0
(* C01: rotating = matrix product = vector part of q v q*; q_rot is the inverse *)
RotateLaw  == \A v \in VecSet :
                 /\ Scale3(R[2], RotVec(q, v)) = Scale3(Norm2(q), MatVec(R[1], v))
                 /\ MatVec(Transpose(R[1]), MatVec(R[1], v)) = Scale3(R[2]*R[2], v)
(* C02 at the model level: inside its domain every method has an output, every output is  *)
(* a non-zero real multiple of the register, the two arms of Sarabandi and the magnitude /  *)
(* sign recovery of Chiaverini are consistent, and the register is the eigenvector of K2/K3 *)
MethodSound == \A m \in Methods : InDomain(m) =>
                   /\ QuatOut(m) # {}
                   /\ \A o \in QuatOut(m) : ~IsZeroQ(o) /\ Collinear4(o, q)
ClosedFormIdentities == q[1] # 0 => MagnitudeIdentity(R[1], R[2]) /\ SarArmIdentity(R[1], R[2])
(* the point laws at the current register, for every operand *)
PointLaws  == /\ LawOrthogonal(q) /\ LawDet(q) /\ LawNeg(q) /\ LawConj(q) /\ LawInverse(q)
              /\ \A v \in Gen : LawHom(q, v) /\ LawHom(v, q) /\ LawNormMul(q, v)
                                /\ LawAntiHom(q, v) /\ LawLeftRight(q, v)
=============================================================================
