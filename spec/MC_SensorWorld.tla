---------------------------- MODULE MC_SensorWorld ----------------------------
EXTENDS SensorWorld
Canon(S) == { q \in S : \E i \in 1..4 : q[i] > 0 /\ \A j \in 1..(i-1) : q[j] = 0 }     \* one of {q, -q}
FreeQuick    == Canon(L(1))
FreeThorough == Canon(L(2))
NZ4(S) == { q \in S : q[1] # 0 /\ q[2] # 0 /\ q[3] # 0 /\ q[4] # 0 }
ClosedAll  == { q \in Canon(NZ4(L(3))) : GeneralPosition(q) }
ClosedQuick == { q \in ClosedAll : (q[1] + 2*q[2] + 3*q[3] + 5*q[4]) % 7 = 1 }
DipsQuick == { <<1,0>>, <<1,2>>, <<2,-1>> }
DipsAll   == { <<1,0>>, <<1,1>>, <<1,2>>, <<2,-1>>, <<1,5>>, <<1,-5>> }
ScQuick == { <<1,1>>, <<1,1000>> }
ScAll   == { <<1,1>>, <<1,1000>>, <<1000,1>> }
AttQuick == FreeQuick \cup ClosedQuick
AttAll   == FreeThorough \cup ClosedAll

Emit(S) == ndJsonSerialize(IOEnv.OUT_FILE, SetToSeq(S)) /\ (TRUE \/ phase = "")
ConvSeq == SetToSeq(Conventions)
CasesJ(As, Ds) == { [u |-> a, dip |-> d, gp |-> GeneralPosition(a), N |-> Norm2(a),
                     conv |-> ConvSeq,
                     meas |-> [ i \in 1..Len(ConvSeq) |-> << Meas(ConvSeq[i], a, ConvSeq[i][1]), Meas(ConvSeq[i], a, HRef(ConvSeq[i][2], d)) >> ] ]
                    : a \in As, d \in Ds }
EmitQuick == Emit(CasesJ(AttQuick, DipsQuick))
EmitAll   == Emit(CasesJ(AttAll, DipsAll))
=============================================================================
