SPECIFICATION Spec
INVARIANT OnlyRotations
INVARIANT AllDirectionsAccepted
POSTCONDITION EmitAll
