SPECIFICATION Spec
INVARIANT OnlyRotations
INVARIANT MixedStacksAccepted
INVARIANT AllDirectionsAccepted
POSTCONDITION EmitAll
