---------------------------- MODULE FilterCatalogue ----------------------------
(* Constant-level part of the filter specifications: the classes, the configurations   *)
(* their constructors accept (transcribed from the code), which sensors a configuration *)
(* consumes, fault kinds and the outcomes the properties allow for a faulted sample.    *)
EXTENDS Integers, Sequences, FiniteSets

Recursive   == {"Madgwick", "Mahony", "EKF", "UKF", "AQUA", "ROLEQ", "FKF", "Complementary", "Fourati", "AngularRate"}
SingleFrame == {"Tilt", "TRIAD", "Davenport", "QUEST", "FLAE", "OLEQ", "SAAM", "FAMC", "FQA", "AQUA"}
Filters     == Recursive \cup SingleFrame
(* recursive classes that offer no one-sample update method: an instance exists only through its Batch action (the lifecycle machine's *)
(* Create / Update actions are not enabled for them; determinism, isolation and repeatability are decided on Batch behaviours alone)   *)
BatchOnly   == {"Complementary", "FKF"}
Streaming   == Recursive \ BatchOnly

(* sensor architectures a class can be built with *)
Archs(f) == CASE f \in {"Madgwick", "Mahony", "EKF", "Complementary"} -> {"IMU", "MARG"}
              [] f = "UKF" -> {"IMU"}
              [] f \in {"ROLEQ", "FKF", "Fourati"} -> {"MARG"}
              [] f = "AngularRate" -> {"GYR"}
              [] f = "AQUA" -> {"IMU", "MARG", "ACC", "ACCMAG"}
              [] f \in {"Tilt", "FQA"} -> {"ACC", "ACCMAG"}
              [] OTHER -> {"ACCMAG"}
Frames(f) == IF f \in {"EKF", "ROLEQ", "OLEQ", "TRIAD"} THEN {"NED", "ENU"} ELSE {"-"}
Reps(f)   == CASE f = "Tilt" -> {"quaternion", "rotmat", "angles"}
               [] f \in {"SAAM", "TRIAD"} -> {"quaternion", "rotmat"}
               [] f = "Complementary" -> {"quaternion", "angles"}
               [] f = "AngularRate" -> {"quaternion", "rotmat", "angles"}
               [] OTHER -> {"quaternion"}
Modes(f)  == CASE f = "FLAE" -> {"symbolic", "eig", "newton"}
               [] f = "AngularRate" -> {"closed", "series", "integration"}      \* "integration": cumulative sum of the rates read as roll-pitch-yaw (batch only)
               [] f = "AQUA" -> {"fixed", "adaptive"}
               [] OTHER -> {"-"}
Gains == {"default", "low", "high"}
Rates == {"100Hz", "3Hz", "1000Hz"}

Cfgs == { c \in [f : Filters, arch : {"IMU", "MARG", "ACC", "ACCMAG", "GYR"}, frame : {"NED", "ENU", "-"},
                 rep : {"quaternion", "rotmat", "angles"}, mode : {"symbolic", "eig", "newton", "closed", "series", "integration", "fixed", "adaptive", "-"},
                 gain : Gains, rate : Rates] :
            /\ c.arch \in Archs(c.f) /\ c.frame \in Frames(c.f) /\ c.rep \in Reps(c.f) /\ c.mode \in Modes(c.f)
            /\ (c.f \notin Recursive \/ (c.f = "AQUA" /\ c.arch \in {"ACC", "ACCMAG"})) => (c.gain = "default" /\ c.rate = "100Hz")
            /\ (c.f = "AQUA" /\ c.arch \in {"ACC", "ACCMAG"}) => c.mode = "fixed" }

(* which sample kinds an update consumes *)
UsesMag(c) == c.arch \in {"MARG", "ACCMAG"}
UsesAcc(c) == c.arch # "GYR"
UsesGyr(c) == c.arch \in {"IMU", "MARG", "GYR"}
Streams(c) == c.f \in {"Madgwick", "Mahony", "EKF", "UKF", "AQUA", "ROLEQ", "Fourati", "AngularRate"} /\ UsesGyr(c) /\ c.mode # "integration"

(* ------------------------------- faults (C13) ------------------------------- *)
FaultKinds == {"ok", "acc0", "mag0", "gyr0", "accmag0", "all0"}
Zeroes(fk, what) == CASE fk = "ok" -> FALSE
                      [] fk = "acc0" -> what = "acc"
                      [] fk = "mag0" -> what = "mag"
                      [] fk = "gyr0" -> what = "gyr"
                      [] fk = "accmag0" -> what \in {"acc", "mag"}
                      [] fk = "all0" -> TRUE
(* a fault the configuration can see at all *)
Visible(c, fk) == \/ (UsesAcc(c) /\ Zeroes(fk, "acc")) \/ (UsesMag(c) /\ Zeroes(fk, "mag")) \/ (UsesGyr(c) /\ Zeroes(fk, "gyr"))
(* the outcomes the property allows for a sample *)
AllowedOutcomes(c, fk) == IF Visible(c, fk) THEN {"Skipped", "Rejected", "Ok"} ELSE {"Ok"}

=============================================================================
