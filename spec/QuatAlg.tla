----------------------------- MODULE QuatAlg -----------------------------
(* Lipschitz (integer) quaternions u = <<w, x, y, z>>, scalar first.       *)
(* A non-zero u denotes the rotation u/|u|;  R(u) = M(u) / Norm2(u).       *)
EXTENDS ExactArith

Mul(p, q) == << p[1]*q[1] - p[2]*q[2] - p[3]*q[3] - p[4]*q[4],
                p[1]*q[2] + p[2]*q[1] + p[3]*q[4] - p[4]*q[3],
                p[1]*q[3] - p[2]*q[4] + p[3]*q[1] + p[4]*q[2],
                p[1]*q[4] + p[2]*q[3] - p[3]*q[2] + p[4]*q[1] >>
Conj(q)   == << q[1], -q[2], -q[3], -q[4] >>
NegQ(q)   == << -q[1], -q[2], -q[3], -q[4] >>
Norm2(q)  == q[1]*q[1] + q[2]*q[2] + q[3]*q[3] + q[4]*q[4]
Dot4(p,q) == p[1]*q[1] + p[2]*q[2] + p[3]*q[3] + p[4]*q[4]
ScaleQ(k, q) == << k*q[1], k*q[2], k*q[3], k*q[4] >>
AddQ(p, q)   == << p[1]+q[1], p[2]+q[2], p[3]+q[3], p[4]+q[4] >>
One       == << 1, 0, 0, 0 >>
IsZeroQ(q) == Norm2(q) = 0
Vec(q)    == << q[2], q[3], q[4] >>
Pure(v)   == << 0, v[1], v[2], v[3] >>

PrimQ(q)  == LET g == GCD4(q[1], q[2], q[3], q[4])
             IN  IF g = 0 THEN q ELSE << q[1] \div g, q[2] \div g, q[3] \div g, q[4] \div g >>

(* p and q are real multiples of each other / positive multiples *)
Collinear4(p, q) == \A i, j \in 1..4 : p[i]*q[j] = p[j]*q[i]
SameRay4(p, q)   == Collinear4(p, q) /\ Dot4(p, q) > 0
SameRot(p, q)    == Collinear4(p, q) /\ ~IsZeroQ(p) /\ ~IsZeroQ(q)

(* numerator of the rotation matrix: R(u) = M(u)/Norm2(u), active rotation *)
M(u) == LET w == u[1] x == u[2] y == u[3] z == u[4] IN
        << << w*w + x*x - y*y - z*z, 2*(x*y - w*z),         2*(x*z + w*y) >>,
           << 2*(x*y + w*z),         w*w - x*x + y*y - z*z, 2*(y*z - w*x) >>,
           << 2*(x*z - w*y),         2*(y*z + w*x),         w*w - x*x - y*y + z*z >> >>

(* vector part of u v u*, equal to M(u).v (both carry the factor Norm2(u)) *)
RotVec(u, v) == Vec(Mul(Mul(u, Pure(v)), Conj(u)))

(* product matrices: LeftMat(p).q = p q = RightMat(q).p, as 4-tuples of rows *)
LeftMat(p)  == << << p[1], -p[2], -p[3], -p[4] >>,
                  << p[2],  p[1], -p[4],  p[3] >>,
                  << p[3],  p[4],  p[1], -p[2] >>,
                  << p[4], -p[3],  p[2],  p[1] >> >>
RightMat(p) == << << p[1], -p[2], -p[3], -p[4] >>,
                  << p[2],  p[1],  p[4], -p[3] >>,
                  << p[3], -p[4],  p[1],  p[2] >>,
                  << p[4],  p[3], -p[2],  p[1] >> >>
Mat4Vec(A, q) == << Dot4(A[1], q), Dot4(A[2], q), Dot4(A[3], q), Dot4(A[4], q) >>

RECURSIVE PowQ(_, _)
PowQ(q, n) == IF n = 0 THEN One ELSE IF n < 0 THEN PowQ(Conj(q), -n) ELSE Mul(PowQ(q, n-1), q)

(* rational unit quaternion U(u) = u.u / Norm2(u): numerator, denominator Norm2(u) *)
SqQ(u) == Mul(u, u)

(* --------------------------- the laws (C01, C09) ------------------------ *)
LawOrthogonal(u) == MatMul(M(u), Transpose(M(u))) = MatScale(Norm2(u)*Norm2(u), Ident3)
(* det = +Norm2^3, stated without cubes (32-bit): with orthogonality, r1 x r2 = N r3 *)
(* is equivalent to det M = N^3                                                 *)
LawDet(u)        == Cross3(M(u)[1], M(u)[2]) = Scale3(Norm2(u), M(u)[3])
LawHom(p, q)     == M(Mul(p, q)) = MatMul(M(p), M(q))
LawNeg(u)        == M(NegQ(u)) = M(u)
LawConj(u)       == M(Conj(u)) = Transpose(M(u))
LawRot(u, v)     == RotVec(u, v) = MatVec(M(u), v)
LawRotInv(u, v)  == MatVec(Transpose(M(u)), MatVec(M(u), v)) = Scale3(Norm2(u)*Norm2(u), v)
LawNormMul(p, q) == Norm2(Mul(p, q)) = Norm2(p) * Norm2(q)
LawAntiHom(p, q) == Conj(Mul(p, q)) = Mul(Conj(q), Conj(p))
LawAssoc(p, q, r) == Mul(Mul(p, q), r) = Mul(p, Mul(q, r))
LawInverse(p)    == Mul(p, Conj(p)) = ScaleQ(Norm2(p), One) /\ Mul(Conj(p), p) = ScaleQ(Norm2(p), One)
LawLeftRight(p, q) == Mat4Vec(LeftMat(p), q) = Mul(p, q) /\ Mat4Vec(RightMat(q), p) = Mul(p, q)
=============================================================================
