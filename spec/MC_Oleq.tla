------------------------------- MODULE MC_Oleq -------------------------------
EXTENDS Oleq
Emit(S) == ndJsonSerialize(IOEnv.OUT_FILE, SetToSeq(S)) /\ (TRUE \/ w = <<0, 0>>)
AttQuick == { a \in L(1) : a[1] > 0 \/ (a[1] = 0 /\ a[2] > 0) \/ (a[1] = 0 /\ a[2] = 0 /\ a[3] > 0) \/ a = <<0,0,0,1>> }
(* reference pairs as the estimator's frames build them (gravity along -+z, magnetic field in the x-z or y-z plane at a
   Pythagorean dip) and one pair with an East component *)
Pairs == { << <<0,0,-1>>, <<4,0,3>> >>, << <<0,0,-1>>, <<12,0,5>> >>, << <<0,0,1>>, <<0,3,-4>> >>, << <<0,0,1>>, <<0,5,-12>> >>,
           << <<0,0,-1>>, <<9,12,20>> >> }
Ws == { <<1,1>>, <<1,3>>, <<2,1>> }
(* the constant-level laws are checked once (ASSUME), not in every state *)
ConstLaws == AsBuiltIsTheory /\ Symmetric /\ Involution
EmitAll == Emit({ Case(uu, rr, ww) : uu \in AttQuick, rr \in Pairs, ww \in Ws })
EmitW == Emit({ [b |-> b, r |-> r, W |-> Wbuilt(b, r)] : b \in Vecs3(1), r \in { <<1,0,0>>, <<0,1,0>>, <<0,0,1>>, <<1,-2,2>>, <<3,0,4>> } })
(* one state: all constant-level laws evaluated once *)
SpecLaws == (u = <<1,0,0,0>> /\ rp = << <<0,0,-1>>, <<4,0,3>> >> /\ w = <<1,1>>) /\ [][Next]_vars
LawsOnce == ConstLaws /\ FixedPoint /\ UniqueDirection
=============================================================================
