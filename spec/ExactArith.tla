--------------------------- MODULE ExactArith ---------------------------
(* Exact integer / rational helpers shared by every ahrs model.           *)
(* TLC has 32-bit integers and no reals: every value of the models is an  *)
(* integer, an integer tuple, or a rational <<num, den>> with den > 0.    *)
EXTENDS Integers, Sequences, FiniteSets

Abs(x)  == IF x < 0 THEN -x ELSE x
Sgn(x)  == IF x < 0 THEN -1 ELSE IF x > 0 THEN 1 ELSE 0
Max2(a, b) == IF a >= b THEN a ELSE b
Min2(a, b) == IF a <= b THEN a ELSE b

RECURSIVE GCD(_, _)
GCD(a, b) == IF b = 0 THEN Abs(a) ELSE GCD(Abs(b), Abs(a) % Abs(b))

GCD3(a, b, c)    == GCD(GCD(a, b), c)
GCD4(a, b, c, d) == GCD(GCD(a, b), GCD(c, d))

(* rationals <<n, d>>, d > 0 *)
RatLe(p, q) == p[1] * q[2] <= q[1] * p[2]
RatLt(p, q) == p[1] * q[2] <  q[1] * p[2]
RatEq(p, q) == p[1] * q[2] =  q[1] * p[2]
RatRed(p)   == LET g == GCD(p[1], p[2]) IN IF g = 0 THEN p ELSE <<p[1] \div g, p[2] \div g>>

(* reduced rational arithmetic (keeps 32-bit intermediates small) *)
RatN(p)      == LET r == RatRed(p) IN IF r[2] < 0 THEN << -r[1], -r[2] >> ELSE r
(* (operands are assumed reduced with positive denominators; cancel before multiplying) *)
RatAdd(p, q) == LET d == GCD(p[2], q[2]) IN RatN(<< p[1] * (q[2] \div d) + q[1] * (p[2] \div d), (p[2] \div d) * q[2] >>)
RatSub(p, q) == RatAdd(p, << -q[1], q[2] >>)
RatMul(p, q) == LET g1 == GCD(p[1], q[2]) g2 == GCD(q[1], p[2])
                    a1 == IF g1 = 0 THEN 1 ELSE g1  a2 == IF g2 = 0 THEN 1 ELSE g2
                IN  RatN(<< (p[1] \div a1) * (q[1] \div a2), (p[2] \div a2) * (q[2] \div a1) >>)
RatDiv(p, q) == RatMul(p, IF q[1] < 0 THEN << -q[2], -q[1] >> ELSE << q[2], q[1] >>)
RatInt(n)    == << n, 1 >>

(* 3-vectors and 3x3 matrices as tuples / tuples of rows *)
Dot3(a, b)   == a[1]*b[1] + a[2]*b[2] + a[3]*b[3]
Cross3(a, b) == << a[2]*b[3] - a[3]*b[2], a[3]*b[1] - a[1]*b[3], a[1]*b[2] - a[2]*b[1] >>
Scale3(k, a) == << k*a[1], k*a[2], k*a[3] >>
Add3(a, b)   == << a[1]+b[1], a[2]+b[2], a[3]+b[3] >>
Neg3(a)      == << -a[1], -a[2], -a[3] >>
IsZero3(a)   == a[1] = 0 /\ a[2] = 0 /\ a[3] = 0
Prim3(a)     == LET g == GCD3(a[1], a[2], a[3]) IN IF g = 0 THEN a ELSE << a[1] \div g, a[2] \div g, a[3] \div g >>
(* a and b are positive multiples of each other *)
SameDir3(a, b) == IsZero3(Cross3(a, b)) /\ Dot3(a, b) > 0

MatVec(A, v) == << Dot3(A[1], v), Dot3(A[2], v), Dot3(A[3], v) >>
Col(A, j)    == << A[1][j], A[2][j], A[3][j] >>
Transpose(A) == << Col(A, 1), Col(A, 2), Col(A, 3) >>
MatMul(A, B) == [ i \in 1..3 |-> [ j \in 1..3 |-> Dot3(A[i], Col(B, j)) ] ]
MatScale(k, A) == [ i \in 1..3 |-> [ j \in 1..3 |-> k * A[i][j] ] ]
Ident3       == << <<1,0,0>>, <<0,1,0>>, <<0,0,1>> >>
Det3(A)      == Dot3(A[1], Cross3(A[2], A[3]))
Trace3(A)    == A[1][1] + A[2][2] + A[3][3]
=============================================================================
