\* thorough: L(2) registers, L(1)+thin operands, two steps
SPECIFICATION Spec
CONSTANTS
  Gen <- GenQuick
  Start <- GenDeep
  VecSet <- VecQuick
  MulRoutes <- OneRoute
  DcmRoutes <- OneRoute
  RotRoutes <- OneRoute
  ConjRoutes <- OneRoute
  QuatMethods <- NoMethods
  MaxDepth = 2
CONSTRAINT Bound
INVARIANT Faithful
INVARIANT ProperRot
INVARIANT RotateLaw
POSTCONDITION EmitDeep
