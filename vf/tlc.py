"""TLC runner: every model job of the framework goes through run_tlc().

A job names a root module under /verif/spec (or a generated module placed in the
scratch directory), a cfg given as text, optional IOEnv variables (how data are passed
to and from the specification: IOEnv.OUT_FILE, IOEnv.TRACE_FILE ...) and a mode
(exhaustive BFS or -simulate).  The result carries TLC's own statistics so that evidence
files report what TLC really explored.
"""
import os
import re
import shutil
import subprocess
import tempfile
import time
import json

SPEC_DIR = os.path.join(os.path.dirname(os.path.dirname(os.path.abspath(__file__))), "spec")
JAR = "/opt/veriftools/tla/tla2tools.jar"
DEPS = "/opt/veriftools/tla/CommunityModules-deps.jar"


class TLCError(Exception):
    """machinery failure (exit code 2 of ./check)"""


class TLCResult(object):
    def __init__(self):
        self.generated = 0
        self.distinct = 0
        self.depth = 0
        self.ok = False
        self.violated = None      # name of violated invariant/property/postcondition
        self.output = ""
        self.wall = 0.0
        self.out_records = []     # records written by the spec to IOEnv.OUT_FILE
        self.printed = []         # PrintT lines
        self.coverage = {}        # action -> count (with -coverage)
        self.behaviours = []      # parsed -simulate files

    def stats(self):
        return {"states": self.distinct, "transitions": self.generated}


_scratch_root = None


def scratch_root():
    global _scratch_root
    if _scratch_root is None:
        _scratch_root = tempfile.mkdtemp(prefix="ahrs-verif-")
    return _scratch_root


def cleanup():
    global _scratch_root
    if _scratch_root and os.path.isdir(_scratch_root):
        shutil.rmtree(_scratch_root, ignore_errors=True)
    _scratch_root = None


def run_tlc(module, cfg, env=None, workers=16, simulate=None, depth=None, seed=None,
            timeout=900, coverage=False, deadlock=False, extra_modules=None,
            want_behaviours=False, continue_=False, dfs=False, heap="4g"):
    """Run TLC on spec/<module>.tla with cfg text `cfg`.

    simulate: None or number of behaviours (uses -simulate num=N, -depth depth).
    extra_modules: {name: text} generated modules written next to a copy of nothing --
        they are placed in the scratch dir, and the scratch dir is the root module's
        directory if `module` is one of them; /verif/spec is on TLA-Library either way.
    Returns TLCResult.  Raises TLCError on crash / timeout / parse errors.
    """
    root = tempfile.mkdtemp(prefix="job-", dir=scratch_root())
    res = TLCResult()
    try:
        extra_modules = extra_modules or {}
        for name, text in extra_modules.items():
            with open(os.path.join(root, name + ".tla"), "w") as f:
                f.write(text)
        if module in extra_modules:
            modpath = os.path.join(root, module + ".tla")
        else:
            modpath = os.path.join(SPEC_DIR, module + ".tla")
        cfgpath = os.path.join(root, module + "_job.cfg")
        with open(cfgpath, "w") as f:
            f.write(cfg)
        outfile = os.path.join(root, "out.ndjson")
        e = dict(os.environ)
        e["OUT_FILE"] = outfile
        e["SCRATCH"] = root
        for k, v in (env or {}).items():
            e[k] = str(v)
        e.pop("JAVA_TOOL_OPTIONS", None)
        cmd = ["java", "-XX:+UseParallelGC", "-Xmx" + heap, "-Xss16m",
               "-DTLA-Library=" + SPEC_DIR + os.pathsep + root]
        if dfs:
            cmd.append("-Dtlc2.tool.queue.IStateQueue=StateDeque")
        cmd += ["-cp", JAR + os.pathsep + DEPS, "tlc2.TLC",
                "-config", cfgpath, "-metadir", os.path.join(root, "meta"),
                "-noGenerateSpecTE", "-workers", str(workers)]
        if not deadlock:
            cmd.append("-deadlock")
        if coverage:
            cmd += ["-coverage", "1"]
        if continue_:
            cmd.append("-continue")
        simdir = None
        if simulate is not None:
            s = "num=%d" % simulate
            if want_behaviours:
                simdir = os.path.join(root, "sim")
                os.mkdir(simdir)
                s = "file=%s/b,%s" % (simdir, s)
            cmd += ["-simulate", s]
            if depth is not None:
                cmd += ["-depth", str(depth)]
            if seed is not None:
                cmd += ["-seed", str(seed)]
        cmd.append(modpath)
        t0 = time.time()
        try:
            p = subprocess.run(cmd, cwd=root, env=e, stdout=subprocess.PIPE,
                               stderr=subprocess.STDOUT, timeout=timeout)
        except subprocess.TimeoutExpired:
            raise TLCError("TLC timed out after %ss on %s" % (timeout, module))
        res.wall = time.time() - t0
        out = p.stdout.decode("utf-8", "replace")
        res.output = out
        _parse(out, res)
        if os.path.exists(outfile):
            with open(outfile) as f:
                for line in f:
                    line = line.strip()
                    if line:
                        res.out_records.append(json.loads(line))
        if simdir:
            res.behaviours = [parse_behaviour(os.path.join(simdir, fn))
                              for fn in sorted(os.listdir(simdir))]
        if p.returncode != 0 and res.violated is None:
            raise TLCError("TLC failed on %s (rc=%d):\n%s" % (module, p.returncode, out[-4000:]))
        res.ok = (p.returncode == 0)
        return res
    finally:
        shutil.rmtree(root, ignore_errors=True)


_re_stats = re.compile(r"(\d+) states generated, (\d+) distinct states found")
_re_sim = re.compile(r"The number of states generated: (\d+)")
_re_depth = re.compile(r"The depth of the complete state graph search is (\d+)")
_re_inv = re.compile(r"Invariant (\S+) is violated")
_re_prop = re.compile(r"(?:Action property|Temporal property|property) (\S+) (?:is|was) violated", re.I)
_re_cov = re.compile(r"^<(\w+) line (\d+), col \d+ to line \d+, col \d+ of module (\w+)>: (\d+):(\d+)", re.M)


def _parse(out, res):
    for m in _re_stats.finditer(out):
        res.generated, res.distinct = int(m.group(1)), int(m.group(2))
    m = _re_sim.search(out)
    if m and not res.generated:
        res.generated = int(m.group(1))
        res.distinct = res.distinct or res.generated
    m = _re_depth.search(out)
    if m:
        res.depth = int(m.group(1))
    m = _re_inv.search(out)
    if m:
        res.violated = m.group(1)
    m2 = _re_prop.search(out)
    if m2 and res.violated is None:
        res.violated = m2.group(1)
    if res.violated is None and re.search(r"Postcondition \S+ .*is false|postcondition has been violated", out, re.I):
        res.violated = "POSTCONDITION"
    if res.violated is None and "Assumption" in out and "is false" in out:
        res.violated = "ASSUME"
    for m in _re_cov.finditer(out):
        key = m.group(3) + "!" + m.group(1)
        res.coverage[key] = res.coverage.get(key, 0) + int(m.group(4))
    # PrintT output: lines that are TLA+ values printed by the spec
    for line in out.splitlines():
        if line.startswith("<<") or line.startswith("[") or line.startswith('"'):
            res.printed.append(line)


# ----------------------------------------------------------------------------
# TLA+ value parser (for -simulate behaviour files and PrintT lines)
# ----------------------------------------------------------------------------

def parse_value(s):
    v, i = _pv(s, 0)
    return v


def _ws(s, i):
    while i < len(s) and s[i] in " \t\r\n":
        i += 1
    return i


def _pv(s, i):
    i = _ws(s, i)
    c = s[i]
    if s.startswith("<<", i):
        i += 2
        items = []
        i = _ws(s, i)
        if s.startswith(">>", i):
            return tuple(items), i + 2
        while True:
            v, i = _pv(s, i)
            items.append(v)
            i = _ws(s, i)
            if s.startswith(">>", i):
                return tuple(items), i + 2
            assert s[i] == ",", s[i:i + 20]
            i += 1
    if c == "{":
        i += 1
        items = []
        i = _ws(s, i)
        if s[i] == "}":
            return items, i + 1
        while True:
            v, i = _pv(s, i)
            items.append(v)
            i = _ws(s, i)
            if s[i] == "}":
                return items, i + 1
            assert s[i] == ",", s[i:i + 20]
            i += 1
    if c == "[":
        i += 1
        d = {}
        while True:
            i = _ws(s, i)
            m = re.compile(r"[A-Za-z_][A-Za-z_0-9]*").match(s, i)
            key = m.group(0)
            i = _ws(s, m.end())
            assert s.startswith("|->", i), s[i:i + 20]
            v, i = _pv(s, i + 3)
            d[key] = v
            i = _ws(s, i)
            if s[i] == "]":
                return d, i + 1
            assert s[i] == ",", s[i:i + 20]
            i += 1
    if c == "(":
        # function displayed as (a :> b @@ c :> d)
        i += 1
        d = {}
        while True:
            k, i = _pv(s, i)
            i = _ws(s, i)
            assert s.startswith(":>", i), s[i:i + 20]
            v, i = _pv(s, i + 2)
            d[k] = v
            i = _ws(s, i)
            if s[i] == ")":
                return d, i + 1
            assert s.startswith("@@", i), s[i:i + 20]
            i += 2
    if c == '"':
        j = i + 1
        while s[j] != '"':
            if s[j] == "\\":
                j += 1
            j += 1
        return s[i + 1:j], j + 1
    m = re.compile(r"-?\d+").match(s, i)
    if m:
        return int(m.group(0)), m.end()
    m = re.compile(r"[A-Za-z_][A-Za-z_0-9]*").match(s, i)
    if m:
        w = m.group(0)
        return {"TRUE": True, "FALSE": False}.get(w, w), m.end()
    raise ValueError("cannot parse TLA+ value at: " + s[i:i + 40])


_re_state_hdr = re.compile(r"^\\\* <(\w+)(?:\((.*)\))? line (\d+)", re.M)


def parse_behaviour(path):
    """A -simulate behaviour file -> list of {action, args, state}."""
    txt = open(path).read()
    steps = []
    # file layout:  STATE_1 == \n /\ v = ... \n\n \* <Action(args) line ...>\n STATE_2 == ...
    parts = re.split(r"^STATE_\d+ ==\s*$", txt, flags=re.M)
    headers = [None] + [None] * (len(parts) - 1)
    # the action comment precedes each STATE_n (n >= 2)
    for k in range(1, len(parts)):
        prev = parts[k - 1]
        ms = list(_re_state_hdr.finditer(prev))
        if ms:
            m = ms[-1]
            args = parse_value("<<" + m.group(2) + ">>") if m.group(2) else ()
            headers[k] = (m.group(1), args)
    for k in range(1, len(parts)):
        body = parts[k]
        body = re.split(r"^\\\*", body, flags=re.M)[0]
        state = {}
        for m in re.finditer(r"/\\ (\w+) = ", body):
            pass
        conj = re.split(r"^/\\ ", body.strip(), flags=re.M)
        for cj in conj:
            cj = cj.strip()
            if not cj:
                continue
            name, _, val = cj.partition(" = ")
            state[name.strip()] = parse_value(val.strip())
        act = headers[k] or ("Init", ())
        steps.append({"action": act[0], "args": act[1], "state": state})
    return steps
