"""Which lines of the library do the checks ever execute?  (selftest aid, off unless VERIF_COVER names a file.)

The specification decides nothing about code the conformance harness never drives, so the blind spots of the route tables
are worth measuring: with VERIF_COVER=<file> every process of a check appends "<path relative to the library>:<line>" the first
time a line of AHRS_REPO/ahrs runs (sys.monitoring, Python >= 3.12; each location reports once per process and is then
disabled, so the overhead is small).  selftest/surface.py aggregates the files and lists the functions with unexecuted lines."""
import os
import sys


def install(repo):
    path = os.environ.get("VERIF_COVER")
    if not path or not hasattr(sys, "monitoring"):
        return
    lib = os.path.join(os.path.abspath(repo), "ahrs") + os.sep
    fd = os.open(path, os.O_WRONLY | os.O_CREAT | os.O_APPEND, 0o644)
    mon = sys.monitoring
    tool = mon.COVERAGE_ID
    try:
        mon.use_tool_id(tool, "verif-cover")
    except ValueError:
        return

    def on_line(code, line):
        fn = code.co_filename
        if fn.startswith(lib):
            os.write(fd, ("%s:%d\n" % (fn[len(lib):], line)).encode())
        return mon.DISABLE
    mon.register_callback(tool, mon.events.LINE, on_line)
    mon.set_events(tool, mon.events.LINE)
