"""As-built model of OLEQ.estimate (spec/Oleq.tla, section AS BUILT): the power iteration q <- R q / |R q| on the exact matrix
R = (I + a1 W1/d1 + a2 W2/d2) / 2 emitted by TLC, from the start vector the code draws from NumPy's global RNG, stopped as the
code stops it (two iterates closer than 1e-8, at most 21 multiplications).  Nothing here looks at the implementation's W."""
import numpy as np


def iteration_matrix(case):
    W1 = np.array(case["W1"], dtype=float) / float(case["d1"])
    W2 = np.array(case["W2"], dtype=float) / float(case["d2"])
    a1, a2 = [float(x) for x in case["weights"]]
    return 0.5 * (np.identity(4) + a1 * W1 + a2 * W2)


def draw_start():
    """the start vector, drawn the way the code draws it (eq. 25: a 'random' quaternion)"""
    q = np.random.random(4) - 0.5
    return q / np.linalg.norm(q)


def iterate(R, q0, max_mult=21, tol=1e-8):
    q = np.array(q0, dtype=float)
    last = np.array([1.0, 0.0, 0.0, 0.0])
    i = 0
    while np.linalg.norm(q - last) > tol and i < max_mult:
        last = q
        q = R @ last
        q = q / np.linalg.norm(q)
        i += 1
    return q / np.linalg.norm(q), i
