"""Implementation side of SensorWorld: every single-frame estimator route, bound to the
convention key (gravity reference, magnetic form, type) it is looked up under in
spec/SensorWorld.tla.  cls: 'free' = required for every attitude, 'closed' = required in
general position only (the property's two classes)."""
import math
import numpy as np

from ahrs import filters as F
from ahrs.common import orientation as ori


def dipdeg(d):
    return math.degrees(math.atan2(d[1], d[0]))


def href(form, d):
    c, s = float(d[0]), float(d[1])
    return {"c0s": [c, 0, s], "c0-s": [c, 0, -s], "s0c": [s, 0, c], "0c-s": [0, c, -s], "0cs": [0, c, s], "decl": [3 * c, 4 * c, 5 * s]}[form]


def unitv(v):
    v = np.array(v, dtype=float)
    return v / np.linalg.norm(v)


R = []   # (name, conv, cls, tol, fn(acc, mag, d) -> quaternion | matrix, batch_fn or None)


def route(name, g, form, typ, cls, tol=1e-10):
    def deco(fn):
        R.append({"name": name, "conv": (tuple(g), form, typ), "cls": cls, "tol": tol, "fn": fn})
        return fn
    return deco


UP, DN = (0, 0, 1), (0, 0, -1)

# ---- TRIAD: references given explicitly; matrix form singularity-free, quaternion through Chiaverini
route("TRIAD(v1,v2).A", UP, "c0s", "A", "free")(lambda a, m, d: F.TRIAD(a, m, v1=np.array([0.0, 0, 1]), v2=np.array(href("c0s", d), dtype=float)).A)
route("TRIAD.estimate", UP, "c0s", "A", "free")(lambda a, m, d: F.TRIAD(v1=np.array([0.0, 0, 1]), v2=np.array(href("c0s", d), dtype=float)).estimate(a, m))
route("TRIAD(v1,v2,quaternion).A", UP, "c0s", "A", "closed", 1e-7)(lambda a, m, d: F.TRIAD(a, m, v1=np.array([0.0, 0, 1]), v2=np.array(href("c0s", d), dtype=float), representation="quaternion").A)
route("TRIAD.estimate(quaternion)", UP, "c0s", "A", "closed", 1e-7)(lambda a, m, d: F.TRIAD(v1=np.array([0.0, 0, 1]), v2=np.array(href("c0s", d), dtype=float)).estimate(a, m, representation="quaternion"))
# (TRIAD's "v2 as a dip angle" is unreachable: the guard clause refuses a float before it is interpreted)
route("TRIAD(frame=ENU,v2).A", DN, "0c-s", "A", "free")(lambda a, m, d: F.TRIAD(a, m, v2=np.array(href("0c-s", d), dtype=float), frame="ENU").A)
def _triad_reconfigured(a, m, d, rep="rotmat"):
    # one object used twice: first with other references, then its public reference attributes are re-assigned
    t = F.TRIAD(v1=np.array([0.0, 0.0, -1.0]), v2=unitv([0.0, 3.0, -4.0]))
    t.estimate(np.array([0.3, -0.2, 9.7]), np.array([12.0, 30.0, -41.0]))
    t.v1 = np.array([0.0, 0.0, 1.0])
    t.v2 = unitv(href("c0s", d))
    return t.estimate(a, m, representation=rep)


route("TRIAD.estimate[after v1,v2 re-assigned]", UP, "c0s", "A", "free")(lambda a, m, d: _triad_reconfigured(a, m, d))
# ---- Davenport / QUEST
route("Davenport().Q", UP, "c0s", "B", "free", 1e-7)(lambda a, m, d: F.Davenport(a, m, magnetic_dip=dipdeg(d)).Q)
route("Davenport.estimate", UP, "c0s", "B", "free", 1e-7)(lambda a, m, d: F.Davenport(magnetic_dip=dipdeg(d)).estimate(a, m))
route("QUEST().Q", UP, "c0s", "B", "closed", 1e-7)(lambda a, m, d: F.QUEST(a, m, magnetic_dip=dipdeg(d)).Q)
route("QUEST.estimate", UP, "c0s", "B", "closed", 1e-7)(lambda a, m, d: F.QUEST(magnetic_dip=dipdeg(d)).estimate(a, m))
# non-default weights (not normalised, unequal): with consistent data the optimum does not depend on them
route("QUEST(weights=[1,1]).Q", UP, "c0s", "B", "closed", 1e-7)(lambda a, m, d: F.QUEST(a, m, magnetic_dip=dipdeg(d), weights=np.ones(2)).Q)
route("QUEST(weights=[3,5]).estimate", UP, "c0s", "B", "closed", 1e-7)(lambda a, m, d: F.QUEST(magnetic_dip=dipdeg(d), weights=np.array([3.0, 5.0])).estimate(a, m))
route("QUEST(weights=[0.7,0.3]).Q", UP, "c0s", "B", "closed", 1e-7)(lambda a, m, d: F.QUEST(a, m, magnetic_dip=dipdeg(d), weights=np.array([0.7, 0.3])).Q)
route("Davenport(weights=[2,1]).Q", UP, "c0s", "B", "free", 1e-7)(lambda a, m, d: F.Davenport(a, m, magnetic_dip=dipdeg(d), weights=np.array([2.0, 1.0])).Q)
route("Davenport(weights=[0.2,0.8]).estimate", UP, "c0s", "B", "free", 1e-7)(lambda a, m, d: F.Davenport(magnetic_dip=dipdeg(d), weights=np.array([0.2, 0.8])).estimate(a, m))
# ---- FLAE, three modes
for _m, _cls in (("eig", "free"), ("symbolic", "closed"), ("newton", "closed")):
    route("FLAE(method=%s).Q" % _m, UP, "c0-s", "B", _cls, 1e-7)(lambda a, m, d, _m=_m: F.FLAE(np.array([a, a]), np.array([m, m]), method=_m, magnetic_dip=dipdeg(d)).Q[1])
    route("FLAE(1-D sample, method=%s).Q" % _m, UP, "c0-s", "B", _cls, 1e-7)(lambda a, m, d, _m=_m: F.FLAE(a, m, method=_m, magnetic_dip=dipdeg(d)).Q)
    route("FLAE.estimate(method=%s)" % _m, UP, "c0-s", "B", _cls, 1e-7)(lambda a, m, d, _m=_m: F.FLAE(magnetic_dip=dipdeg(d)).estimate(a, m, method=_m))
    if _m != "symbolic":
        route("FLAE(weights=[2,1], method=%s).Q" % _m, UP, "c0-s", "B", _cls, 1e-7)(lambda a, m, d, _m=_m: F.FLAE(a, m, method=_m, magnetic_dip=dipdeg(d), weights=np.array([2.0, 1.0])).Q)
        route("FLAE(weights=[1,3]).estimate(method=%s)" % _m, UP, "c0-s", "B", _cls, 1e-7)(lambda a, m, d, _m=_m: F.FLAE(magnetic_dip=dipdeg(d), weights=np.array([1.0, 3.0])).estimate(a, m, method=_m))
# ---- OLEQ
route("OLEQ(NED).Q", DN, "s0c", "B", "closed", 1e-6)(lambda a, m, d: F.OLEQ(a, m, magnetic_ref=float(dipdeg(d)), frame="NED").Q)
route("OLEQ(ENU).Q", UP, "0c-s", "B", "closed", 1e-6)(lambda a, m, d: F.OLEQ(a, m, magnetic_ref=float(dipdeg(d)), frame="ENU").Q)
route("OLEQ(NED).estimate", DN, "s0c", "B", "closed", 1e-6)(lambda a, m, d: F.OLEQ(magnetic_ref=float(dipdeg(d)), frame="NED").estimate(a, m))
# ---- SAAM, FAMC, FQA (FQA recovers half angles as sqrt((1 -+ cos)/2): half the digits are lost near cos = +-1 => 1e-7)
route("SAAM().Q", UP, "c0s", "A", "closed")(lambda a, m, d: F.SAAM(a, m).Q)
route("SAAM.estimate", UP, "c0s", "A", "closed")(lambda a, m, d: F.SAAM().estimate(a, m))
route("SAAM(N).Q", UP, "c0s", "A", "closed")(lambda a, m, d: F.SAAM(np.array([a, a]), np.array([m, m])).Q[0])
route("SAAM(rotmat).A", UP, "c0s", "A", "closed")(lambda a, m, d: F.SAAM(a, m, representation="rotmat").A)
route("FAMC().Q", UP, "c0s", "B", "closed")(lambda a, m, d: F.FAMC(a, m).Q)
route("FAMC.estimate", UP, "c0s", "B", "closed")(lambda a, m, d: F.FAMC().estimate(a, m))
route("FQA(mag_ref).Q", DN, "c0s", "B", "closed", 1e-7)(lambda a, m, d: F.FQA(a, m, mag_ref=np.array(href("c0s", d), dtype=float)).Q)
route("FQA.estimate", DN, "c0s", "B", "closed", 1e-7)(lambda a, m, d: F.FQA(mag_ref=np.array(href("c0s", d), dtype=float)).estimate(a, m))
# ---- the same estimators with a magnetic reference that has an East component
route("TRIAD(v2=decl).A", UP, "decl", "A", "free")(lambda a, m, d: F.TRIAD(a, m, v1=np.array([0.0, 0, 1]), v2=np.array(href("decl", d), dtype=float)).A)
route("QUEST(magnetic_dip=vector).Q", UP, "decl", "B", "closed", 1e-7)(lambda a, m, d: F.QUEST(a, m, magnetic_dip=unitv(href("decl", d))).Q)
route("OLEQ(NED,magnetic_ref=vector).Q", DN, "decl", "B", "closed", 1e-6)(lambda a, m, d: F.OLEQ(a, m, magnetic_ref=np.array(href("decl", d), dtype=float), frame="NED").Q)
route("FQA(mag_ref=decl).Q", DN, "decl", "B", "closed", 1e-7)(lambda a, m, d: F.FQA(a, m, mag_ref=np.array(href("decl", d), dtype=float)).Q)
route("FQA(mag_ref=east).estimate", DN, "0cs", "B", "closed", 1e-7)(lambda a, m, d: F.FQA(mag_ref=np.array(href("0cs", d), dtype=float)).estimate(a, m))
# ---- Tilt (singularity-free class per the property), AQUA's algebraic fix
route("Tilt().Q", UP, "c0s", "B", "free")(lambda a, m, d: F.Tilt(a, m).Q)
route("Tilt(N).Q", UP, "c0s", "B", "free")(lambda a, m, d: F.Tilt(np.array([a, a]), np.array([m, m])).Q[1])
route("Tilt.estimate", UP, "c0s", "B", "free")(lambda a, m, d: F.Tilt().estimate(a, m))
route("Tilt.estimate(rotmat)", UP, "c0s", "B", "free")(lambda a, m, d: F.Tilt().estimate(a, m, representation="rotmat"))
route("Tilt(N,rotmat).Q", UP, "c0s", "B", "free")(lambda a, m, d: F.Tilt(np.array([a, a]), np.array([m, m]), representation="rotmat").Q[0])
route("AQUA.estimate", UP, "c0s", "A", "free")(lambda a, m, d: F.AQUA().estimate(a, m))
route("AQUA.init_q", UP, "c0s", "A", "free")(lambda a, m, d: F.AQUA().init_q(a, m))
route("AQUA(acc,mag).Q", UP, "c0s", "A", "free")(lambda a, m, d: F.AQUA(acc=np.array([a, a]), mag=np.array([m, m])).Q[1])
# ---- e-compass and the acc/mag helper functions
route("ecompass(NED)", UP, "c0s", "B", "free")(lambda a, m, d: ori.ecompass(a, m, frame="NED"))
route("ecompass(ENU)", UP, "0cs", "B", "free")(lambda a, m, d: ori.ecompass(a, m, frame="ENU"))
route("ecompass(NED,quaternion)", UP, "c0s", "B", "closed", 1e-7)(lambda a, m, d: ori.ecompass(a, m, frame="NED", representation="quaternion"))
route("ecompass(ENU,quaternion)", UP, "0cs", "B", "closed", 1e-7)(lambda a, m, d: ori.ecompass(a, m, frame="ENU", representation="quaternion"))
route("am2DCM(NED)", DN, "c0s", "A", "free")(lambda a, m, d: ori.am2DCM(a, m, frame="NED"))
route("am2DCM(ENU)", UP, "0cs", "A", "free")(lambda a, m, d: ori.am2DCM(a, m, frame="ENU"))
route("am2q(NED)", DN, "c0s", "Bq", "closed", 1e-7)(lambda a, m, d: ori.am2q(a, m, frame="NED"))
route("am2q(ENU)", UP, "0cs", "Bq", "closed", 1e-7)(lambda a, m, d: ori.am2q(a, m, frame="ENU"))
# ---- the local frame is an option spelled in any letter case (every function validates it with frame.upper())
route("ecompass(ned)", UP, "c0s", "B", "free")(lambda a, m, d: ori.ecompass(a, m, frame="ned"))
route("ecompass(Ned,quaternion)", UP, "c0s", "B", "closed", 1e-7)(lambda a, m, d: ori.ecompass(a, m, frame="Ned", representation="quaternion"))
route("ecompass(enu)", UP, "0cs", "B", "free")(lambda a, m, d: ori.ecompass(a, m, frame="enu"))
route("am2DCM(ned)", DN, "c0s", "A", "free")(lambda a, m, d: ori.am2DCM(a, m, frame="ned"))
route("am2DCM(Enu)", UP, "0cs", "A", "free")(lambda a, m, d: ori.am2DCM(a, m, frame="Enu"))
route("am2q(ned)", DN, "c0s", "Bq", "closed", 1e-7)(lambda a, m, d: ori.am2q(a, m, frame="ned"))
route("am2q(enu)", UP, "0cs", "Bq", "closed", 1e-7)(lambda a, m, d: ori.am2q(a, m, frame="enu"))
route("TRIAD(frame=enu,v2).A", DN, "0c-s", "A", "free")(lambda a, m, d: F.TRIAD(a, m, v2=np.array(href("0c-s", d), dtype=float), frame="enu").A)
ROUTES = R


def M_float(q):
    w, x, y, z = [float(c) for c in q]
    n = w * w + x * x + y * y + z * z
    return np.array([[w * w + x * x - y * y - z * z, 2 * (x * y - w * z), 2 * (x * z + w * y)],
                     [2 * (x * y + w * z), w * w - x * x + y * y - z * z, 2 * (y * z - w * x)],
                     [2 * (x * z - w * y), 2 * (y * z + w * x), w * w - x * x - y * y + z * z]]) / n


def as_matrix(out):
    """quaternion or matrix output -> matrix; classification of invalid outputs"""
    a = np.asarray(out)
    if np.iscomplexobj(a):
        if np.max(np.abs(a.imag)) > 0:
            return None, "complex"
        return None, "complex-dtype"
    a = np.asarray(a, dtype=float)
    if not np.all(np.isfinite(a)):
        return None, "nan"
    if a.shape == (4,):
        if abs(np.linalg.norm(a) - 1) > 1e-9:
            return None, "not-unit"
        return M_float(a), None
    if a.shape == (3, 3):
        return a, None
    return None, "shape%s" % (a.shape,)
