"""./check <ID> <quick|thorough> | ./check <ID> --replay FILE"""
import importlib
import json
import os
import sys
import traceback

sys.dont_write_bytecode = True
REPO = os.environ.get("AHRS_REPO", "/repo")
sys.path.insert(0, REPO)
os.environ.setdefault("AHRS_VERIF", "1")
from . import cover as _cover
_cover.install(REPO)

import warnings
warnings.filterwarnings("ignore")
import numpy as _np
_np.seterr(all="ignore")

from . import core, tlc  # noqa
from . import forms as _forms
_forms.install()


class Watchdog(Exception):
    pass


# no verdict within this many seconds => the run is reported as a violation ("a call into the library does not return").
# Ten to thirty times the wall time of the slowest check of the tier on the unchanged tree (quick <= 1.5 min, thorough <= 27 min).
LIMITS = {"quick": int(os.environ.get("VERIF_QUICK_LIMIT", "2400")), "thorough": int(os.environ.get("VERIF_THOROUGH_LIMIT", "21600"))}


def _arm(seconds):
    import signal

    def on_alarm(signum, frame):
        raise Watchdog()
    signal.signal(signal.SIGALRM, on_alarm)
    signal.alarm(seconds)


def main(argv):
    if len(argv) < 2:
        print(__doc__)
        return 2
    pid = argv[0].upper()
    seed = int(os.environ.get("VERIF_SEED", "20261003"))
    try:
        mod = importlib.import_module("vf.props." + pid.lower())
    except ImportError:
        traceback.print_exc()
        return 2
    try:
        if argv[1] == "--replay":
            chk = core.Check(pid, "quick", seed)
            chk.replay_mode = True
            with open(argv[2]) as f:
                body = json.load(f)
            mod.replay(chk, body)
            return chk.finish()
        tier = argv[1]
        if tier not in ("quick", "thorough"):
            print(__doc__)
            return 2
        chk = core.Check(pid, tier, seed)
        _arm(LIMITS[tier])
        _forms.activate(chk)
        mod.run(chk)
        import signal
        signal.alarm(0)
        _forms.collect(chk)
        return chk.finish()
    except Watchdog:
        # the unchanged tree answers in a small fraction of the limit: some call into the library no longer returns
        import multiprocessing as _mp
        import faulthandler
        for c in _mp.active_children():
            c.terminate()
        chk.fail("%s|no-verdict-within-%d-s|a-call-into-the-library-does-not-return" % (pid, LIMITS[tier]),
                 {"tier": tier, "limit_s": LIMITS[tier], "note": "the check was interrupted by its watchdog; partial results are reported with it"})
        return chk.finish()
    except tlc.TLCError as e:
        print("MACHINERY FAILURE (TLC): %s" % str(e)[-3000:])
        return 2
    except Exception as e:
        # An exception that comes out of the library under test (a frame in AHRS_REPO/ahrs) where the unchanged tree raises
        # none is a finding of the run, not a failure of the machinery: report it as a violation with the traceback as replay.
        tb = traceback.format_exc()
        cause = getattr(e, "__cause__", None)
        text = tb + (str(cause) if cause is not None else "")
        lib = os.path.join(os.path.abspath(REPO), "ahrs") + os.sep
        if lib in text:
            frames = [l.strip() for l in text.splitlines() if lib in l]
            where = frames[-1].split(lib)[-1].split('"')[0] if frames else "?"
            try:
                chk.fail("%s|uncaught-%s-in-%s" % (pid, type(e).__name__, where), {"traceback": text[-3000:]})
                return chk.finish()
            except Exception:
                pass
        traceback.print_exc()
        print("MACHINERY FAILURE")
        return 2
    finally:
        tlc.cleanup()


if __name__ == "__main__":
    sys.exit(main(sys.argv[1:]))
