"""Python mirror of spec/Dcm2Quat.tla, operator by operator, in unbounded integers.

TLC evaluates the TLA+ operators on every grid point and the harness checks that this
mirror returns exactly the same values there (see c02.replay_cases: 'harness-mirror');
the mirror is then used for the thin families whose squares do not fit TLC's 32-bit
integers (rotation angles down to 1e-12 rad from identity / from a half-turn)."""
from .core import M_int, norm2
from math import gcd


def red_mat(Mn, N):
    g = N
    for row in Mn:
        for c in row:
            g = gcd(g, c)
    return [[c // g for c in row] for row in Mn], N // g


def mat_of(u):
    return red_mat(M_int(u), norm2(u))


def Dw(Mn, N): return N + Mn[0][0] + Mn[1][1] + Mn[2][2]
def Dx(Mn, N): return N + Mn[0][0] - Mn[1][1] - Mn[2][2]
def Dy(Mn, N): return N - Mn[0][0] + Mn[1][1] - Mn[2][2]
def Dz(Mn, N): return N - Mn[0][0] - Mn[1][1] + Mn[2][2]
def Awx(Mn): return Mn[2][1] - Mn[1][2]
def Awy(Mn): return Mn[0][2] - Mn[2][0]
def Awz(Mn): return Mn[1][0] - Mn[0][1]
def Sxy(Mn): return Mn[0][1] + Mn[1][0]
def Sxz(Mn): return Mn[2][0] + Mn[0][2]
def Syz(Mn): return Mn[1][2] + Mn[2][1]


def shep_branches(Mn):
    u = [Mn[0][0] + Mn[1][1] + Mn[2][2], Mn[0][0], Mn[1][1], Mn[2][2]]
    return [i + 1 for i in range(4) if all(u[i] >= u[j] for j in range(4))]


def shep_out(Mn, N, i):
    if i == 1:
        return [Dw(Mn, N), Awx(Mn), Awy(Mn), Awz(Mn)]
    if i == 2:
        return [Awx(Mn), Dx(Mn, N), Sxy(Mn), Sxz(Mn)]
    if i == 3:
        return [Awy(Mn), Sxy(Mn), Dy(Mn, N), Syz(Mn)]
    return [Awz(Mn), Sxz(Mn), Syz(Mn), Dz(Mn, N)]


def shepperd(Mn, N):
    return [shep_out(Mn, N, i) for i in shep_branches(Mn)]


def closed(Mn, N):
    return [Dw(Mn, N), Awx(Mn), Awy(Mn), Awz(Mn)]


def hughes(Mn, N):
    if Mn[0][0] + Mn[1][1] + Mn[2][2] == 3 * N:
        return [[1, 0, 0, 0]]
    return [closed(Mn, N)]


def sar_arms(Mn, N, en, ed):
    return [(D - N) * ed > en * N for D in (Dw(Mn, N), Dx(Mn, N), Dy(Mn, N), Dz(Mn, N))]


def method_case(u):
    Mn, N = mat_of(u)
    return {"u": list(u), "Mn": Mn, "N": N, "shepperd": shepperd(Mn, N), "shep_branches": shep_branches(Mn),
            "closed": closed(Mn, N), "hughes": hughes(Mn, N),
            "arms_neg": sar_arms(Mn, N, -1, 2), "arms_zero": sar_arms(Mn, N, 0, 1), "arms_pos": sar_arms(Mn, N, 1, 2)}
