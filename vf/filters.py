"""Implementation side of FilterLifecycle: configuration records of the specification
(spec/FilterLifecycle.tla, Cfgs) -> real ahrs estimator objects, batch and streaming."""
import numpy as np

from ahrs import filters as F

FREQ = {"100Hz": 100.0, "3Hz": 3.0, "1000Hz": 1000.0}


def kwargs_of(cfg):
    """constructor keyword arguments for the gain / rate / frame / mode classes of a configuration"""
    f, gain = cfg["f"], cfg["gain"]
    kw = {}
    if f in ("Madgwick", "Mahony", "EKF", "UKF", "AQUA", "ROLEQ", "FKF", "Complementary", "Fourati", "AngularRate"):
        kw["frequency"] = FREQ[cfg["rate"]]
    if cfg["frame"] != "-":
        kw["frame"] = cfg["frame"]
    g = {"default": None, "low": 0, "high": 1}[gain]
    if g is not None:
        if f == "Madgwick":
            kw["gain"] = (0.01, 0.5)[g]
        elif f == "Mahony":
            kw["k_P"], kw["k_I"] = ((0.1, 0.05), (5.0, 1.0))[g]
        elif f == "EKF":
            kw["noises"] = ([0.1 ** 2, 0.2 ** 2, 0.3 ** 2], [0.5 ** 2, 1.0, 1.5 ** 2])[g]
        elif f == "UKF":
            kw["alpha"] = (1e-4, 1e-1)[g]
        elif f == "AQUA":
            kw["alpha"], kw["beta"] = ((0.002, 0.002), (0.1, 0.1))[g]
        elif f == "ROLEQ":
            kw["weights"] = (np.array([1.0, 3.0]), np.array([3.0, 1.0]))[g]
        elif f == "FKF":
            kw["sigma_g"], kw["sigma_a"], kw["sigma_m"] = ((1e-3, 1e-3, 1e-3), (0.1, 0.1, 0.1))[g]
        elif f == "Complementary":
            kw["gain"] = (0.5, 0.99)[g]
        elif f == "Fourati":
            kw["gain"] = (0.01, 1.0)[g]
        elif f == "AngularRate":
            kw["order"] = (0, 3)[g]
    if f == "AQUA" and cfg["mode"] == "adaptive":
        kw["adaptive"] = True
    if f == "FLAE":
        kw["method"] = cfg["mode"]
    if f == "AngularRate":
        kw["method"] = cfg["mode"]
    if f in ("Tilt", "SAAM", "TRIAD") and cfg["rep"] != "quaternion":
        kw["representation"] = cfg["rep"]
    if f == "AngularRate" and cfg["rep"] != "quaternion":
        kw["representation"] = cfg["rep"]
    if f in ("SAAM", "TRIAD") and cfg["rep"] == "quaternion":
        kw["representation"] = "quaternion"
    return kw


def batch(cfg, gyr, acc, mag, q0=None, extra=None):
    """construct the estimator over the whole history; returns (object, output rows)"""
    f, arch = cfg["f"], cfg["arch"]
    kw = kwargs_of(cfg)
    kw.update(extra or {})
    if q0 is not None:
        kw["q0"] = q0
    cls = getattr(F, f)
    g = None if gyr is None else np.array(gyr, dtype=float)
    a = None if acc is None else np.array(acc, dtype=float)
    m = None if mag is None else np.array(mag, dtype=float)
    usemag = arch in ("MARG", "ACCMAG")
    if f == "AngularRate":
        obj = cls(gyr=g, **kw)
    elif f == "UKF":
        obj = cls(gyr=g, acc=a, **kw)
    elif f == "AQUA":
        obj = cls(acc=a, mag=m if usemag else None, gyr=g if arch in ("IMU", "MARG") else None, **kw)
    elif f in ("Madgwick", "Mahony", "EKF", "Complementary", "FKF", "ROLEQ", "Fourati"):
        obj = cls(gyr=g, acc=a, mag=m if usemag else None, **kw)
    elif f == "TRIAD":
        obj = cls(a, m, **kw)
    elif f in ("Tilt", "FQA"):
        obj = cls(acc=a, mag=m if usemag else None, **kw)
    else:
        obj = cls(a, m, **kw)
    return obj, output_of(cfg, obj)


def output_of(cfg, obj):
    f, rep = cfg["f"], cfg["rep"]
    if f == "TRIAD":
        return np.asarray(obj.A)
    if f == "SAAM" and rep == "rotmat":
        return np.asarray(obj.A)
    if f == "Complementary" and rep == "angles":
        return np.asarray(obj.W)
    if f == "AngularRate" and rep != "quaternion":
        return np.asarray(obj.R if rep == "rotmat" else obj.W)
    return np.asarray(obj.Q)


def create(cfg, extra=None):
    kw = kwargs_of(cfg)
    kw.update(extra or {})
    return getattr(F, cfg["f"])(**kw)


def step(cfg, obj, q, g, a, m, dt=None):
    """one streaming update from attitude q with one sample (dt: an explicit time step handed to the call itself)"""
    f, arch = cfg["f"], cfg["arch"]
    q = np.array(q, dtype=float)
    g = np.array(g, dtype=float)
    a = None if a is None else np.array(a, dtype=float)
    m = None if m is None else np.array(m, dtype=float)
    kd = {} if dt is None else {"dt": dt}
    if f == "AngularRate":
        kw = kwargs_of(cfg)
        # options the configuration does not name are left to the method's own defaults (as they are left to the constructor's in batch())
        opt = {k_: kw[k_] for k_ in ("method", "order") if k_ in kw}
        return np.asarray(obj.update(q, g, **opt, **kd), dtype=float)
    if f in ("Madgwick", "Mahony", "AQUA"):
        if arch == "MARG":
            return np.asarray(obj.updateMARG(q, g, a, m, **kd), dtype=float)
        return np.asarray(obj.updateIMU(q, g, a, **kd), dtype=float)
    if f == "EKF":
        if arch == "MARG":
            return np.asarray(obj.update(q, g, a, m, **kd), dtype=float)
        return np.asarray(obj.update(q, g, a, **kd), dtype=float)
    if f == "UKF":
        return np.asarray(obj.update(q, g, a, **kd), dtype=float)
    if f in ("ROLEQ", "Fourati"):
        return np.asarray(obj.update(q, g, a, m, **kd), dtype=float)
    if f in ("Complementary", "FKF"):
        raise BatchOnly(f)
    raise KeyError(f)


class BatchOnly(Exception):
    """the class offers no one-sample update: only its Batch actions are replayed"""


def validity(cfg, out, n):
    """None if `out` is n valid attitudes in the requested representation, else a failure mode"""
    rep = cfg["rep"]
    a = np.asarray(out)
    if np.iscomplexobj(a):
        return "complex-dtype"
    if a.dtype == object:
        return "object-dtype"
    a = a.astype(float)
    if rep == "quaternion":
        if a.shape != (n, 4):
            return "shape%s-for-%d-samples" % (a.shape, n)
        if not np.all(np.isfinite(a)):
            return "nan-or-inf"
        if np.max(np.abs(np.linalg.norm(a, axis=1) - 1.0)) > 1e-9:
            return "not-unit"
        return None
    if rep == "rotmat":
        if a.shape != (n, 3, 3):
            return "shape%s-for-%d-samples" % (a.shape, n)
        if not np.all(np.isfinite(a)):
            return "nan-or-inf"
        for R in a:
            if np.max(np.abs(R @ R.T - np.identity(3))) > 1e-9 or abs(np.linalg.det(R) - 1) > 1e-9:
                return "not-a-rotation"
        return None
    if a.shape != (n, 3):
        return "shape%s-for-%d-samples" % (a.shape, n)
    if not np.all(np.isfinite(a)):
        return "nan-or-inf"
    return None
