"""fractions.Fraction mirror of spec/WmmSynth.tla (DEFINITION operators) and the degree-12
synthesis built from them.  The mirror is checked against TLC's exact values on the grid
TLC can evaluate (degree <= 6 at Pythagorean latitudes); it is then used for degree 12 at
the points the property quantifies over.  Coefficients are parsed here, independently of
ahrs, from the shipped .COF files."""
import math
import os
from fractions import Fraction

REPO = os.environ.get("AHRS_REPO", "/repo")
A_REF = Fraction(63712, 10)                   # geomagnetic reference radius, km
WGS_A = Fraction(6378137, 1000)               # km
WGS_FINV = Fraction(298257223563, 10 ** 9)


def coef_q(n, m, k):
    return Fraction((-1) ** k * math.factorial(2 * n - 2 * k), 2 ** n * math.factorial(k) * math.factorial(n - k) * math.factorial(n - m - 2 * k))


def Q(n, m, mu):
    return sum(coef_q(n, m, k) * mu ** (n - m - 2 * k) for k in range((n - m) // 2 + 1))


def dQ(n, m, mu):
    return sum(coef_q(n, m, k) * (n - m - 2 * k) * mu ** (n - m - 2 * k - 1) for k in range((n - m) // 2 + 1) if n - m - 2 * k - 1 >= 0)


def P_def(n, m, mu, c):
    return c ** m * Q(n, m, mu)


def dP_def(n, m, mu, c):
    return -m * (c ** (m - 1) if m > 0 else 0) * mu * Q(n, m, mu) + c ** (m + 1) * dQ(n, m, mu)


def P_over_cos(n, m, mu, c):
    """P_n^m / cos(phi') = cos^(m-1) Q  (m >= 1): no division, so the poles need no special case"""
    return c ** (m - 1) * Q(n, m, mu)


def schmidt2(n, m):
    return Fraction((1 if m == 0 else 2) * math.factorial(n - m), math.factorial(n + m))


_cof = {}


def load_cof(epoch):
    if epoch in _cof:
        return _cof[epoch]
    path = os.path.join(REPO, "ahrs", "utils", "WMM%d" % epoch, "WMM.COF")
    g, h, gd, hd = {}, {}, {}, {}
    with open(path) as f:
        first = f.readline().split()
        assert abs(float(first[0]) - epoch) < 1e-9, (first, epoch)
        for line in f:
            p = line.split()
            if len(p) < 6 or p[0].startswith("9999"):
                continue
            n, m = int(p[0]), int(p[1])
            g[(n, m)] = Fraction(p[2])
            h[(n, m)] = Fraction(p[3])
            gd[(n, m)] = Fraction(p[4])
            hd[(n, m)] = Fraction(p[5])
    _cof[epoch] = (g, h, gd, hd)
    return _cof[epoch]


def geodetic_to_geocentric(lat_deg, h_km):
    """WGS84: (phi', r) from geodetic latitude and height, in floats (independent of ahrs)"""
    a = float(WGS_A)
    f = 1.0 / float(WGS_FINV)
    e2 = f * (2.0 - f)
    lat = math.radians(lat_deg)
    s, c = math.sin(lat), math.cos(lat)
    Rc = a / math.sqrt(1.0 - e2 * s * s)
    rho = (Rc + h_km) * c
    z = (Rc * (1.0 - e2) + h_km) * s
    r = math.hypot(rho, z)
    return math.atan2(z, rho), r


def synthesize(lat_deg, lon_deg, h_km, tenths, epoch_t=None):
    """north, east, down [nT] at a geodetic point for the date tenths/10 (tenth-of-a-year grid); epoch_t (tenths)
    overrides the coefficient file (calendar dates: the file of the epoch containing the date)"""
    if epoch_t is None:
        epoch_t = 20150 if tenths < 20200 else (20200 if tenths < 20250 else 20250)
    g, h, gd, hd = load_cof(epoch_t // 10)
    dt = Fraction(tenths - epoch_t, 10)
    latp, r = geodetic_to_geocentric(lat_deg, h_km)
    if abs(lat_deg) == 90.0:
        mu, c = Fraction(int(math.copysign(1, lat_deg))), Fraction(0)
    else:
        mu, c = Fraction(math.sin(latp)), Fraction(math.cos(latp))
    lam = math.radians(lon_deg)
    ar = float(A_REF) / r
    Xp = Yp = Zp = 0.0
    for n in range(1, 13):
        arn2 = ar ** (n + 2)
        xs = ys = zs = 0.0
        for m in range(n + 1):
            sch = math.sqrt(schmidt2(n, m))
            gt = float(g[(n, m)] + dt * gd[(n, m)])
            ht = float(h[(n, m)] + dt * hd[(n, m)])
            cm, sm = math.cos(m * lam), math.sin(m * lam)
            gc = gt * cm + ht * sm
            gs = gt * sm - ht * cm
            xs += gc * sch * float(dP_def(n, m, mu, c))
            zs += gc * sch * float(P_def(n, m, mu, c))
            if m > 0:
                ys += m * gs * sch * float(P_over_cos(n, m, mu, c))
        Xp += -arn2 * xs
        Yp += arn2 * ys
        Zp += -(n + 1) * arn2 * zs
    dl = latp - math.radians(lat_deg)
    X = Xp * math.cos(dl) - Zp * math.sin(dl)
    Z = Xp * math.sin(dl) + Zp * math.cos(dl)
    return X, Yp, Z
