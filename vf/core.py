"""Engine core: the Check context (violations, known findings, evidence, replays),
`gamma` (specification value -> float) and `alpha` (float -> specification verdict).

gamma/alpha are the only places where the harness does arithmetic of its own:
one correctly rounded division / sqrt / atan2 per concretised component.
"""
import hashlib
import json
import math
import os
import sys
import time
from fractions import Fraction

import numpy as np

ROOT = os.path.dirname(os.path.dirname(os.path.abspath(__file__)))
KNOWN = os.path.join(ROOT, "known_findings.json")


# ----------------------------------------------------------------------------
# gamma: exact value -> float
# ----------------------------------------------------------------------------

def norm2(u):
    return sum(int(c) * int(c) for c in u)


def g_unit(u):
    """integer vector u -> float unit vector u/|u| (one sqrt, one division each)."""
    u = [int(c) for c in u]
    m = max(abs(c) for c in u)
    if m > 1 << 400:
        # bigint mirror values: drop low bits (relative error < 2^-300) so that the square root fits a float
        sh = m.bit_length() - 350
        u = [c // (1 << sh) if c >= 0 else -((-c) // (1 << sh)) for c in u]
    n = math.sqrt(norm2(u))
    return np.array([c / n for c in u], dtype=float)


def g_ratunit(u):
    """rational unit quaternion U(u) = u*u/Norm2(u): exactly unit up to rounding of the
    four divisions."""
    w, x, y, z = [int(c) for c in u]
    n = norm2(u)
    sq = (w * w - x * x - y * y - z * z, 2 * w * x, 2 * w * y, 2 * w * z)
    return np.array([Fraction(c, n) for c in sq], dtype=float)


def qmul_int(p, q):
    return (p[0] * q[0] - p[1] * q[1] - p[2] * q[2] - p[3] * q[3],
            p[0] * q[1] + p[1] * q[0] + p[2] * q[3] - p[3] * q[2],
            p[0] * q[2] - p[1] * q[3] + p[2] * q[0] + p[3] * q[1],
            p[0] * q[3] + p[1] * q[2] - p[2] * q[1] + p[3] * q[0])


def g_mat(Mnum, den):
    """integer 3x3 numerator / integer denominator -> float matrix."""
    return np.array([[Fraction(int(c), int(den)) for c in row] for row in Mnum], dtype=float)


def g_vec(v, den=1):
    return np.array([Fraction(int(c), int(den)) for c in v], dtype=float)


def M_int(u):
    w, x, y, z = [int(c) for c in u]
    return ((w * w + x * x - y * y - z * z, 2 * (x * y - w * z), 2 * (x * z + w * y)),
            (2 * (x * y + w * z), w * w - x * x + y * y - z * z, 2 * (y * z - w * x)),
            (2 * (x * z - w * y), 2 * (y * z + w * x), w * w - x * x - y * y + z * z))


def g_rot(u):
    """exact rotation matrix of integer quaternion u as floats (each entry one division)."""
    return g_mat(M_int(u), norm2(u))


# ----------------------------------------------------------------------------
# alpha: float observation -> verdict
# ----------------------------------------------------------------------------

def is_real_finite(a):
    a = np.asarray(a)
    if np.iscomplexobj(a):
        return False
    if a.dtype == object:
        return False
    return bool(np.all(np.isfinite(a)))


def maxdiff(a, b):
    a = np.asarray(a, dtype=float)
    b = np.asarray(b, dtype=float)
    if a.shape != b.shape:
        return float("inf")
    if a.size == 0:
        return 0.0
    d = np.abs(a - b)
    if np.any(np.isnan(d)):
        return float("inf")
    return float(np.max(d))


def qdiff_upto_sign(a, b):
    return min(maxdiff(a, b), maxdiff(a, -np.asarray(b, dtype=float)))


class DoesNotReturn(Exception):
    pass


CALL_CPU_LIMIT = float(os.environ.get("VERIF_CALL_CPU_LIMIT", "120"))


def outcome(fn):
    """Run fn(); abstract the outcome: ('ok', value) or ('raise', ExcName, msg).  A call that burns more than CALL_CPU_LIMIT
    seconds of CPU time of this process (the calls made here take micro- to milliseconds, a batch over a long history a few
    seconds) is abandoned and reported as raising DoesNotReturn: an iteration inside the library no longer terminates."""
    import signal
    import threading
    timed = threading.current_thread() is threading.main_thread()
    if timed:
        def on_timer(signum, frame):
            raise DoesNotReturn("no result after %.0f s of CPU time" % CALL_CPU_LIMIT)
        old = signal.signal(signal.SIGVTALRM, on_timer)
        signal.setitimer(signal.ITIMER_VIRTUAL, CALL_CPU_LIMIT)
    try:
        return ("ok", fn())
    except Exception as e:  # noqa
        return ("raise", type(e).__name__, str(e)[:200])
    finally:
        if timed:
            signal.setitimer(signal.ITIMER_VIRTUAL, 0)
            signal.signal(signal.SIGVTALRM, old)


def hexf(a):
    a = np.asarray(a)
    if np.iscomplexobj(a):
        return [str(c) for c in a.ravel()]
    try:
        return [float(c).hex() for c in np.asarray(a, dtype=float).ravel()]
    except Exception:
        return repr(a)


def jsonable(o):
    if isinstance(o, dict):
        return {str(k): jsonable(v) for k, v in o.items()}
    if isinstance(o, (list, tuple, set, frozenset)):
        return [jsonable(v) for v in o]
    if isinstance(o, np.ndarray):
        if np.iscomplexobj(o):
            return [str(c) for c in o.ravel().tolist()]
        return o.tolist()
    if isinstance(o, (np.integer,)):
        return int(o)
    if isinstance(o, (np.floating,)):
        return float(o)
    if isinstance(o, Fraction):
        return [o.numerator, o.denominator]
    if isinstance(o, (str, int, float, bool)) or o is None:
        if isinstance(o, float) and (math.isnan(o) or math.isinf(o)):
            return repr(o)
        return o
    return repr(o)


# ----------------------------------------------------------------------------
# Check context
# ----------------------------------------------------------------------------

class Check(object):
    def __init__(self, pid, tier, seed):
        self.pid = pid
        self.tier = tier
        self.seed = seed
        self.t0 = time.time()
        self.states = 0
        self.transitions = 0
        self.traces = 0
        self.evaluations = 0
        self.distinct = set()
        self.samples = []
        self.violations = []          # (signature, record)
        self.known_hits = {}          # signature -> count
        self.tlc_jobs = []
        self.assumptions = []
        self.notes = {}
        self.exhaustive = False
        self.rule = ""
        self.known = load_known(pid)
        self.replay_mode = False

    # -- bookkeeping ---------------------------------------------------------
    def add_tlc(self, name, res):
        self.states += res.distinct
        self.transitions += max(res.generated, res.distinct)
        self.tlc_jobs.append({"job": name, "distinct": res.distinct, "generated": res.generated,
                              "wall_s": round(res.wall, 2), "depth": res.depth,
                              "records_out": len(res.out_records)})

    def case(self, key, nontrivial=True):
        self.evaluations += 1
        if nontrivial:
            self.distinct.add(key if isinstance(key, (str, int, tuple)) else json.dumps(jsonable(key), sort_keys=True))

    def sample(self, rec, limit=6):
        if len(self.samples) < limit:
            self.samples.append(jsonable(rec))

    def assume(self, text):
        if text not in self.assumptions:
            self.assumptions.append(text)

    # -- verdicts ------------------------------------------------------------
    def fail(self, signature, record):
        """A case disagrees with the specification.  `signature` identifies
        (route, input class, failure mode); if known_findings.json lists it as open the
        case is reported as KNOWN-FINDING, otherwise it is a VIOLATION."""
        k = self.known.get(signature)
        if k is not None and k.get("status") == "open":
            self.known_hits[signature] = self.known_hits.get(signature, 0) + 1
            return False
        self.violations.append((signature, jsonable(record)))
        return True

    def finish(self):
        """write evidence, replays; print lines; return exit code"""
        wall = time.time() - self.t0
        rc = 0
        for sig, k in sorted(self.known.items()):
            if k.get("status") == "open" and sig in self.known_hits:
                print("KNOWN-FINDING: property=%s %s [%s] (%d cases)" % (
                    self.pid, k.get("what", ""), sig, self.known_hits[sig]))
        stale = [s for s, k in self.known.items() if k.get("status") == "open"
                 and s not in self.known_hits and k.get("tier", "quick") in (self.tier, "quick")]
        if stale and not self.replay_mode:
            self.notes["open_findings_not_reproduced_this_run"] = stale
        seen = set()
        rdir = os.path.join(os.environ.get("VERIF_OUT_DIR", ROOT), "replays", self.pid)
        for sig, rec in self.violations:
            if sig in seen:
                continue
            seen.add(sig)
            os.makedirs(rdir, exist_ok=True)
            body = {"property": self.pid, "signature": sig, "case": rec}
            h = hashlib.sha1(json.dumps(body, sort_keys=True).encode()).hexdigest()[:12]
            path = os.path.join(rdir, h + ".json")
            with open(path, "w") as f:
                json.dump(body, f, indent=1, sort_keys=True)
            print("VIOLATION property=%s replay=%s  [%s]" % (self.pid, path, sig))
            rc = 1
        if not self.replay_mode:
            ev = {
                "property_id": self.pid, "tier": self.tier, "seed": self.seed,
                "level": "model_checking",
                "coverage": {
                    "states": self.states, "transitions": self.transitions,
                    "traces_validated_against_impl": self.traces,
                    "samples": self.samples or [{"note": "no sample recorded"}],
                    "evaluations": self.evaluations,
                    "distinct_nontrivial": len(self.distinct),
                    "rule": self.rule,
                    "exhaustive": self.exhaustive,
                    "tlc_jobs": self.tlc_jobs,
                    "known_findings_hit": self.known_hits,
                    "notes": self.notes,
                },
                "assumptions": self.assumptions,
                "wall_s": round(wall, 2),
                "violations": len(seen),
            }
            edir = os.path.join(os.environ.get("VERIF_OUT_DIR", ROOT), "evidence")
            os.makedirs(edir, exist_ok=True)
            with open(os.path.join(edir, self.pid + ".json"), "w") as f:
                json.dump(ev, f, indent=1, sort_keys=True)
        print("%s %s: %d evaluations, %d distinct cases, TLC %d states / %d transitions, "
              "%d traces, %d violation signature(s), %d known finding(s), %.1fs" % (
                  self.pid, self.tier, self.evaluations, len(self.distinct), self.states,
                  self.transitions, self.traces, len(seen), len(self.known_hits), wall))
        return rc


def load_known(pid):
    if not os.path.exists(KNOWN):
        return {}
    with open(KNOWN) as f:
        data = json.load(f)
    out = {}
    for e in data.get("findings", []):
        if e.get("property") == pid:
            out[e["signature"]] = e
    return out


def rng(seed, *salt):
    h = hashlib.sha256(("%d|" % seed + "|".join(str(s) for s in salt)).encode()).digest()
    return np.random.default_rng(int.from_bytes(h[:8], "little"))


# ----------------------------------------------------------------------------
# parallel replay helper
# ----------------------------------------------------------------------------

def pmap(fn, items, procs=16, chunk=None):
    """fn(list_of_items) -> result; items are split into chunks and the per-chunk results
    are returned in order.  Fork-based so that workers see the already imported ahrs of the
    current /repo working tree."""
    import multiprocessing as mp
    items = list(items)
    if not items:
        return []
    if procs <= 1 or len(items) < 64:
        return [fn(items)]
    chunk = chunk or max(1, (len(items) + procs * 4 - 1) // (procs * 4))
    chunks = [items[i:i + chunk] for i in range(0, len(items), chunk)]
    ctx = mp.get_context("fork")
    with ctx.Pool(min(procs, len(chunks))) as pool:
        return pool.map(fn, chunks)


class Tally(object):
    """what a replay worker returns: failures (signature, record), number of
    implementation calls, distinct case keys, a few samples"""

    def __init__(self):
        self.fails = []
        self.calls = 0
        self.keys = set()
        self.samples = []
        self.worst = {}

    def fail(self, sig, rec):
        if sum(1 for s, _ in self.fails if s == sig) < 3:
            self.fails.append((sig, rec))
        else:
            self.fails.append((sig, None))

    def resid(self, name, val):
        if val > self.worst.get(name, -1.0):
            self.worst[name] = val


def merge(chk, tallies):
    for t in tallies:
        chk.evaluations += t.calls
        chk.distinct |= t.keys
        for s in t.samples:
            chk.sample(s)
        for sig, rec in t.fails:
            if rec is None:
                rec = {"note": "more cases with this signature"}
            chk.fail(sig, rec)
        w = chk.notes.setdefault("worst_residuals", {})
        for k, v in t.worst.items():
            if v > w.get(k, -1.0):
                w[k] = v


def open_deviations(pid=None):
    """deviation ids of the open known findings (the as-built specification's constant)"""
    if not os.path.exists(KNOWN):
        return []
    with open(KNOWN) as f:
        data = json.load(f)
    return sorted(set(e["deviation_id"] for e in data.get("findings", [])
                      if e.get("status") == "open" and e.get("deviation_id") and (pid is None or e.get("property") == pid)))


def validate_traces(chk, module, cfg_text, traces, name, sig_of, timeout=900, env=None):
    """TLC decides whether the recorded implementation traces are behaviours of the
    trace specification `module`.  Rejected traces become failures with signature
    sig_of(trace, index_of_first_unmatched_event)."""
    from . import tlc
    if not traces:
        return
    path = os.path.join(tlc.scratch_root(), "%s-%d.ndjson" % (name, len(traces)))
    with open(path, "w") as f:
        for tr in traces:
            f.write(json.dumps(jsonable(tr)) + "\n")
    e = {"TRACE_FILE": path}
    e.update(env or {})
    res = tlc.run_tlc(module, cfg_text, env=e, workers=1, timeout=timeout)
    chk.add_tlc("%s[%s, %d traces]" % (module, name, len(traces)), res)
    os.remove(path)
    if res.violated is None and res.ok:
        chk.traces += len(traces)
        return
    rej = [ln for ln in res.printed if "REJECTED" in ln]
    for ln in rej:
        val = tlc.parse_value(ln)
        tr = traces[val[1] - 1]
        chk.fail(sig_of(tr, val[2]), {"trace": tr, "first_unmatched_event": val[2]})
    if not rej:
        chk.fail("%s|trace-spec|%s" % (chk.pid, res.violated), {"tlc": res.output[-1500:]})
    chk.traces += len(traces) - len(rej)


def spec_cfg(name, **subst):
    from . import tlc
    with open(os.path.join(tlc.SPEC_DIR, name + ".cfg")) as f:
        s = f.read()
    for k, v in subst.items():
        s = s.replace("@%s@" % k, v)
    return s
