"""Implementation side of AttitudeMachine: every route name of the specification is
bound here to the public ahrs call it stands for.  Nothing in this file computes a
rotation on its own -- it only calls the library."""
import numpy as np

import ahrs
from ahrs.common.quaternion import Quaternion, QuaternionArray
from ahrs.common.dcm import DCM
from ahrs.common import orientation as ori


def Q(q, **kw):
    return Quaternion(np.array(q, dtype=float), **kw)


# -- product routes: returns the float 4-vector of p*q ------------------------
def mul_route(route, p, q):
    p = np.array(p, dtype=float)
    q = np.array(q, dtype=float)
    if route == "product":
        return np.asarray(Q(p).product(q), dtype=float)
    if route == "mul":
        return np.asarray(Q(p) * Q(q), dtype=float)
    if route == "matmul":
        return np.asarray(Q(p) @ Q(q), dtype=float)
    if route == "q_prod":
        return np.asarray(ori.q_prod(p.copy(), q.copy()), dtype=float)
    if route == "mult_L":
        return np.asarray(Q(p).mult_L() @ q, dtype=float)
    if route == "mult_R":
        return np.asarray(Q(q).mult_R() @ p, dtype=float)
    if route == "q_prod[int-left]":
        # an integer-valued left operand is handed over as an integer array (the free function does not normalise)
        a = np.abs(p[np.abs(p) > 1e-9])
        k = p / np.min(a)
        if np.array_equal(k, np.rint(k)) and np.array_equal(k * np.min(a), p) and np.max(np.abs(k)) <= 64:
            pi = np.rint(k).astype(np.int64)
            return np.asarray(ori.q_prod(pi, q.copy()), dtype=float) / np.linalg.norm(pi)
        return np.asarray(ori.q_prod(p.copy(), q.copy()), dtype=float)
    if route == "rotate_by[int-list]":
        a = np.abs(p[np.abs(p) > 1e-9])
        k = p / np.min(a)
        if np.array_equal(k, np.rint(k)) and np.array_equal(k * np.min(a), p) and np.max(np.abs(k)) <= 64:
            return np.asarray(QuaternionArray(np.array([q, q])).rotate_by([int(c) for c in np.rint(k)]), dtype=float)[0]
        return np.asarray(QuaternionArray(np.array([q, q])).rotate_by(list(p)), dtype=float)[0]
    if route == "rotate_by":
        # QuaternionArray.rotate_by(p) returns p * row for every row
        return np.asarray(QuaternionArray(np.array([q, q])).rotate_by(p.copy()), dtype=float)[1]
    raise KeyError(route)


MUL_ROUTES = ["product", "mul", "matmul", "q_prod", "q_prod[int-left]", "mult_L", "mult_R", "rotate_by", "rotate_by[int-list]"]


def conj_route(route, q):
    q = np.array(q, dtype=float)
    if route == "conjugate":
        return np.asarray(Q(q).conjugate, dtype=float)
    if route == "conj":
        return np.asarray(Q(q).conj, dtype=float)
    if route == "q_conj":
        return np.asarray(ori.q_conj(q.copy()), dtype=float)
    if route == "array_conjugate":
        return np.asarray(QuaternionArray(np.array([q, q])).conjugate(), dtype=float)[0]
    if route == "inverse":
        return np.asarray(Q(q).inverse, dtype=float)
    if route == "q_conj[batch]":
        other = np.array([0.5, -0.5, 0.5, 0.5])
        return np.asarray(ori.q_conj(np.array([other, other, q])), dtype=float)[2]
    if route == "Quaternion[S].copy.conjugate":
        return np.roll(np.asarray(QS(q).copy().conjugate, dtype=float), 1)
    if route == "Quaternion[rewritten].conjugate":
        return np.asarray(rewritten(q).conjugate, dtype=float)
    raise KeyError(route)


def rewritten(q):
    """a live object that held ANOTHER quaternion (and was already asked for its matrix / a rotation) and is then overwritten
    in place through its array interface: every reader must see the new value"""
    o = Q([0.5, -0.5, 0.5, 0.5])
    o.to_DCM()
    o.rotate(np.array([1.0, 2.0, 3.0]))
    o[:] = np.array(q, dtype=float)
    return o


def QS(q):
    """the same quaternion held by an object in scalar-last storage"""
    return Quaternion(np.roll(np.array(q, dtype=float), -1), order="S")


CONJ_ROUTES = ["conjugate", "conj", "q_conj", "q_conj[batch]", "array_conjugate", "inverse", "Quaternion[S].copy.conjugate", "Quaternion[rewritten].conjugate"]


def dcm_route(route, q):
    q = np.array(q, dtype=float)
    if route == "Quaternion.to_DCM":
        return np.asarray(Q(q).to_DCM(), dtype=float)
    if route == "QuaternionArray.to_DCM":
        return np.asarray(QuaternionArray(np.array([q, q])).to_DCM(), dtype=float)[1]
    if route == "DCM(q=)":
        return np.asarray(DCM(q=q.copy()), dtype=float)
    if route == "DCM.from_quaternion":
        return np.asarray(DCM().from_quaternion(q.copy()), dtype=float)
    if route == "DCM.from_quaternion[batch]":
        return np.asarray(DCM().from_quaternion(np.array([q, q])), dtype=float)[0]
    if route == "q2R.v1":
        return np.asarray(ori.q2R(q.copy(), version=1), dtype=float)
    if route == "q2R.v2":
        return np.asarray(ori.q2R(q.copy(), version=2), dtype=float)
    if route == "q2R.v1[batch]":
        return np.asarray(ori.q2R(np.array([q, q]), version=1), dtype=float)[1]
    if route == "q2R.v2[batch]":
        return np.asarray(ori.q2R(np.array([q, q]), version=2), dtype=float)[0]
    if route == "Quaternion[S].to_DCM":
        return np.asarray(QS(q).to_DCM(), dtype=float)
    if route == "neg(Quaternion[S]).to_DCM":
        return np.asarray((-QS(-q)).to_DCM(), dtype=float)
    if route == "Quaternion[S].copy.to_DCM":
        return np.asarray(QS(q).copy().to_DCM(), dtype=float)
    if route == "Quaternion[S].view.to_DCM":
        return np.asarray(QS(q).view().to_DCM(), dtype=float)
    if route == "Quaternion[rewritten].to_DCM":
        return np.asarray(rewritten(q).to_DCM(), dtype=float)
    if route == "DCM(q=)[int-list]":
        # integer-valued (non-normalised) quaternions are handed over as integers; others as they are
        a = np.abs(q[np.abs(q) > 1e-9])
        k = q / np.min(a)
        if np.array_equal(k, np.rint(k)) and np.array_equal(k * np.min(a), q) and np.max(np.abs(k)) <= 64:
            return np.asarray(DCM(q=[int(c) for c in np.rint(k)]), dtype=float)
        return np.asarray(DCM(q=list(q)), dtype=float)
    raise KeyError(route)


DCM_ROUTES = ["Quaternion.to_DCM", "QuaternionArray.to_DCM", "DCM(q=)", "DCM.from_quaternion",
              "DCM.from_quaternion[batch]", "q2R.v1", "q2R.v2", "q2R.v1[batch]", "q2R.v2[batch]",
              "Quaternion[S].to_DCM", "neg(Quaternion[S]).to_DCM", "Quaternion[S].copy.to_DCM", "Quaternion[S].view.to_DCM",
              "Quaternion[rewritten].to_DCM", "DCM(q=)[int-list]"]


def rot_route(route, q, v):
    """returns (vector, inverse?)"""
    q = np.array(q, dtype=float)
    v = np.array(v, dtype=float)
    if route == "Quaternion.rotate":
        return np.asarray(Q(q).rotate(v.copy()), dtype=float), False
    if route == "q_rot":
        return np.asarray(ori.q_rot(q.copy(), v.copy()), dtype=float), True
    if route == "sandwich":
        # the vector part of q v q*: the pure quaternion (0, v) is not a rotation, so the products are formed by the free function
        # (the Quaternion class refuses vectors whose squared norm underflows)
        qq = Q(q)
        t = ori.q_prod(np.asarray(qq, dtype=float).copy(), np.array([0.0, v[0], v[1], v[2]]))
        return np.asarray(ori.q_prod(np.asarray(t, dtype=float), np.asarray(qq.conjugate, dtype=float)), dtype=float)[1:], False
    if route == "Quaternion[S].copy.rotate":
        return np.asarray(QS(q).copy().rotate(v.copy()), dtype=float), False
    if route == "Quaternion[rewritten].rotate":
        return np.asarray(rewritten(q).rotate(v.copy()), dtype=float), False
    raise KeyError(route)


ROT_ROUTES = ["Quaternion.rotate", "q_rot", "sandwich", "Quaternion[S].copy.rotate", "Quaternion[rewritten].rotate"]
