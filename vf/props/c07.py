"""C07 -- array (vectorised) entry points equal the scalar entry points row by row.

Specification: spec/Vectorised.tla -- the catalogue of twin pairs, the row classes and the
arrangements (which class of row at which position of an N-row input, N in {1, 2, 5}), with
the invariant RowLocal: Batch(op, xs)[i] = <<op, xs[i]>> = Scalar(op, xs[i]).  TLC enumerates
(op, arrangement); the harness concretises each row class by exact data and requires the
array path's row i to equal the scalar path on row i (abstract-state determinism)."""
import math
import numpy as np

from .. import core, tlc
from ..core import Tally, maxdiff, g_unit
from ahrs.common.quaternion import Quaternion, QuaternionArray
from ahrs.common.dcm import DCM
from ahrs.common import orientation as ori
from ahrs.utils import metrics as MT
from ahrs import filters as F

U = {"generic-a": (3, 1, -2, 1), "generic-b": (1, 2, 2, -3), "half-turn": (0, 1, 2, 2), "near-identity": (10 ** 6, 1, 2, -2),
     "identity": (1, 0, 0, 0), "near-half-turn": (1, 1000, 2000, -2000), "conjugated": (3, -1, 2, -1), "mirrored": (3, 1, 2, 1)}
ANG = {"generic-a": (0.3, -0.5, 1.2), "generic-b": (-2.0, 1.1, -0.4), "half-turn": (math.pi, 0.0, 0.0), "near-identity": (1e-7, -2e-7, 3e-7),
       "identity": (0.0, 0.0, 0.0), "near-half-turn": (math.pi - 1e-6, 0.1, -0.2), "conjugated": (-0.3, 0.5, -1.2), "mirrored": (0.3, 0.5, 1.2)}
OTHER = g_unit((2, -1, 3, 1))


def qrow(c):
    return g_unit(U[c])


def Rrow(c):
    return core.g_rot(U[c])


def amrow(c):
    R = Rrow(c)
    return R.T @ np.array([0.0, 0.0, 1.0]) * 9.81, R.T @ np.array([1.0, 0.0, 2.0]) / math.sqrt(5) * 48.0


def qpair(c):
    # second quaternion: a fixed generic one, except that the special classes are RELATIVE: the pair differs
    # by the class rotation (so that 'identity' = equal quaternions, 'half-turn' = orthogonal quaternions ...)
    if c in ("conjugated", "mirrored"):
        g = g_unit((3, 1, -2, 1))
        return g, g * (np.array([1.0, -1.0, -1.0, -1.0]) if c == "conjugated" else np.array([1.0, 1.0, -1.0, 1.0]))
    q1 = OTHER
    q2 = np.asarray(Quaternion(OTHER).product(qrow(c)), dtype=float)
    return q1, q2 * (-1.0 if c == "generic-b" else 1.0)


def stack(rows):
    return np.array(rows)


def mk_quat_ops():
    ops = {}
    ops["to_DCM"] = (qrow, lambda r: Quaternion(r).to_DCM(), lambda rs: QuaternionArray(stack(rs)).to_DCM(), "exact")
    ops["conjugate"] = (qrow, lambda r: Quaternion(r).conjugate, lambda rs: QuaternionArray(stack(rs)).conjugate(), "exact")
    ops["to_angles"] = (qrow, lambda r: Quaternion(r).to_angles(), lambda rs: QuaternionArray(stack(rs)).to_angles(), "exact")
    ops["from_rpy"] = (lambda c: np.array(ANG[c]), lambda r: np.asarray(Quaternion(rpy=r.copy())), lambda rs: np.asarray(QuaternionArray(rpy=stack(rs))), "exact")
    ops["rpy2q"] = (lambda c: np.array(ANG[c]), lambda r: ori.rpy2q(r.copy()), lambda rs: ori.rpy2q(stack(rs)).T, "exact")
    ops["q2R.v1"] = (qrow, lambda r: ori.q2R(r.copy(), 1), lambda rs: ori.q2R(stack(rs), 1), "exact")
    ops["q2R.v2"] = (qrow, lambda r: ori.q2R(r.copy(), 2), lambda rs: ori.q2R(stack(rs), 2), "exact")
    ops["DCM.from_quaternion"] = (qrow, lambda r: DCM().from_quaternion(r.copy()), lambda rs: DCM().from_quaternion(stack(rs)), "exact")
    ops["q_conj"] = (qrow, lambda r: ori.q_conj(r.copy()), lambda rs: ori.q_conj(stack(rs)), "exact")
    ops["q_norm"] = (lambda c: qrow(c) * 3.5, lambda r: ori.q_norm(r.copy()), lambda rs: ori.q_norm(stack(rs)), "exact")
    ops["from_angles"] = (lambda c: np.array(ANG[c]), lambda r: np.asarray(Quaternion(angles=r.copy())), lambda rs: np.asarray(QuaternionArray(angles=stack(rs))), "exact")

    def from_dcm_inplace(rs):
        Q = QuaternionArray(np.tile([0.5, -0.5, 0.5, 0.5], (len(rs), 1)))
        ret = Q.from_DCM(stack(rs), inplace=True)
        return np.asarray(Q.array if ret is None else ret)
    ops["from_DCM.inplace"] = (Rrow, lambda r: np.asarray(Quaternion(dcm=r.copy())), from_dcm_inplace, "exact")
    for flag in ("is_pure", "is_real", "is_versor", "is_identity"):
        ops[flag] = (qrow, lambda r, flag=flag: np.array(float(getattr(Quaternion(r), flag)())), lambda rs, flag=flag: np.asarray(getattr(QuaternionArray(stack(rs)), flag)(), dtype=float), "exact")
    sl = lambda r: np.roll(np.asarray(r, dtype=float), -1, axis=-1)       # the same quaternion(s), scalar-last
    ops["conjugate[S]"] = (qrow, lambda r: Quaternion(sl(r), order="S").conjugate, lambda rs: QuaternionArray(sl(stack(rs)), order="S").conjugate(), "exact")
    ops["to_DCM[S]"] = (qrow, lambda r: Quaternion(sl(r), order="S").to_DCM(), lambda rs: QuaternionArray(sl(stack(rs)), order="S").to_DCM(), "exact")
    ops["to_angles[S]"] = (qrow, lambda r: Quaternion(sl(r), order="S").to_angles(), lambda rs: QuaternionArray(sl(stack(rs)), order="S").to_angles(), "exact")
    for flag in ("is_identity", "is_pure"):
        ops[flag + "[S]"] = (qrow, lambda r, flag=flag: np.array(float(getattr(Quaternion(sl(r), order="S"), flag)())),
                             lambda rs, flag=flag: np.asarray(getattr(QuaternionArray(sl(stack(rs)), order="S"), flag)(), dtype=float), "exact")
    ops["is_versor[as given]"] = (qrow, lambda r: np.array(float(Quaternion(r, versor=False).is_versor())),
                                  lambda rs: np.asarray(QuaternionArray(stack(rs), versors=False).is_versor(), dtype=float), "exact")
    ops["to_DCM[as given]"] = (qrow, lambda r: Quaternion(r, versor=False).to_DCM(), lambda rs: QuaternionArray(stack(rs), versors=False).to_DCM(), "exact")
    ops["conjugate[as given]"] = (qrow, lambda r: Quaternion(r, versor=False).conjugate, lambda rs: QuaternionArray(stack(rs), versors=False).conjugate(), "exact")
    ops["rmse_matrices"] = (lambda c: (core.g_rot((2, -1, 3, 1)), core.g_rot((2, -1, 3, 1)) @ Rrow(c)), lambda r: MT.rmse_matrices(r[0], r[1]),
                            lambda rs: MT.rmse_matrices(stack([r[0] for r in rs]), stack([r[1] for r in rs])), "exact")
    for m, kw in (("shepperd", {}), ("hughes", {}), ("chiaverini", {}), ("sarabandi", {}), ("itzhack1", {"version": 1}), ("itzhack2", {"version": 2}), ("itzhack3", {"version": 3})):
        mm = m.rstrip("123")
        ops["from_DCM." + m] = (Rrow, lambda r, mm=mm, kw=kw: np.asarray(Quaternion(dcm=r.copy(), method=mm, **kw)),
                                lambda rs, mm=mm, kw=kw: np.asarray(QuaternionArray(DCM=stack(rs), method=mm, **kw)), "sign" if mm == "itzhack" else "exact")
    ops["hughes"] = (Rrow, lambda r: ori.hughes(r.copy()), lambda rs: ori.hughes(stack(rs)), "exact")
    ops["chiaverini"] = (Rrow, lambda r: ori.chiaverini(r.copy()), lambda rs: ori.chiaverini(stack(rs)), "exact")
    for name in ("qdist", "qeip", "qcip", "qad"):
        fn = getattr(MT, name)
        ops[name] = (qpair, lambda r, fn=fn: fn(r[0].copy(), r[1].copy()), lambda rs, fn=fn: fn(stack([r[0] for r in rs]), stack([r[1] for r in rs])), "exact")
    ops["chordal"] = (lambda c: (core.g_rot((2, -1, 3, 1)), core.g_rot((2, -1, 3, 1)) @ Rrow(c)), lambda r: MT.chordal(r[0], r[1]),
                      lambda rs: MT.chordal(stack([r[0] for r in rs]), stack([r[1] for r in rs])), "exact")
    ops["euclidean"] = (lambda c: (np.array(ANG[c]), np.array(ANG["generic-b"]) * 0.5), lambda r: MT.euclidean(r[0], r[1]),
                        lambda rs: MT.euclidean(stack([r[0] for r in rs]), stack([r[1] for r in rs])), "exact")
    ops["rmse"] = (lambda c: (np.array(ANG[c]), np.array(ANG["generic-b"]) * 0.5), lambda r: MT.rmse(r[0], r[1]),
                   lambda rs: MT.rmse(stack([r[0] for r in rs]), stack([r[1] for r in rs])), "exact")
    # ---- single-frame estimators: N-sample constructor vs per-sample estimate()
    A = lambda rs: stack([r[0] for r in rs])
    M = lambda rs: stack([r[1] for r in rs])
    for rep in ("quaternion", "rotmat", "angles"):
        ops["Tilt." + rep] = (amrow, lambda r, rep=rep: F.Tilt().estimate(r[0], r[1], representation=rep), lambda rs, rep=rep: F.Tilt(A(rs), M(rs), representation=rep).Q, "exact")
    ops["Tilt.acc-only"] = (amrow, lambda r: F.Tilt().estimate(r[0]), lambda rs: F.Tilt(A(rs)).Q, "exact")
    ops["SAAM.quaternion"] = (amrow, lambda r: F.SAAM().estimate(r[0], r[1]), lambda rs: F.SAAM(A(rs), M(rs)).Q, "exact")
    ops["SAAM.rotmat"] = (amrow, lambda r: F.SAAM(r[0], r[1], representation="rotmat").A, lambda rs: F.SAAM(A(rs), M(rs), representation="rotmat").A, "exact")
    v2 = np.array([1.0, 0.0, 2.0])
    ops["TRIAD.rotmat"] = (amrow, lambda r: F.TRIAD(v1=np.array([0.0, 0, 1]), v2=v2).estimate(r[0], r[1]), lambda rs: F.TRIAD(A(rs), M(rs), v1=np.array([0.0, 0, 1]), v2=v2).A, "exact")
    ops["TRIAD.quaternion"] = (amrow, lambda r: F.TRIAD(v1=np.array([0.0, 0, 1]), v2=v2).estimate(r[0], r[1], representation="quaternion"),
                               lambda rs: F.TRIAD(A(rs), M(rs), v1=np.array([0.0, 0, 1]), v2=v2, representation="quaternion").A, "exact")
    ops["TRIAD.ENU"] = (amrow, lambda r: F.TRIAD(v2=v2, frame="ENU").estimate(r[0], r[1]), lambda rs: F.TRIAD(A(rs), M(rs), v2=v2, frame="ENU").A, "exact")
    ops["Davenport"] = (amrow, lambda r: F.Davenport(magnetic_dip=63.4).estimate(r[0], r[1]), lambda rs: F.Davenport(A(rs), M(rs), magnetic_dip=63.4).Q, "sign")
    ops["QUEST"] = (amrow, lambda r: F.QUEST(magnetic_dip=63.4).estimate(r[0], r[1]), lambda rs: F.QUEST(A(rs), M(rs), magnetic_dip=63.4).Q, "exact")
    for m in ("symbolic", "eig", "newton"):
        ops["FLAE." + m] = (amrow, lambda r, m=m: F.FLAE(magnetic_dip=-63.4).estimate(r[0], r[1], method=m), lambda rs, m=m: F.FLAE(A(rs), M(rs), method=m, magnetic_dip=-63.4).Q,
                            "sign" if m == "eig" else "exact")
    for fr in ("NED", "ENU"):
        def s_(r, fr=fr):
            return F.OLEQ(magnetic_ref=60.0, frame=fr).estimate(r[0], r[1])

        def b_(rs, fr=fr):
            out = []
            # the estimator draws its start vector from NumPy's global RNG: same seed before every row, as for the scalar path
            o = F.OLEQ(magnetic_ref=60.0, frame=fr)
            np.random.seed(7)
            Q = F.OLEQ(A(rs), M(rs), magnetic_ref=60.0, frame=fr).Q
            return Q
        ops["OLEQ." + fr] = (amrow, s_, b_, "oleq")
    ops["FAMC"] = (amrow, lambda r: F.FAMC().estimate(r[0], r[1]), lambda rs: F.FAMC(A(rs), M(rs)).Q, "exact")
    ops["FQA"] = (amrow, lambda r: F.FQA(mag_ref=v2).estimate(r[0], r[1]), lambda rs: F.FQA(A(rs), M(rs), mag_ref=v2).Q, "exact")
    ops["FQA.acc-only"] = (amrow, lambda r: F.FQA().estimate(r[0]), lambda rs: F.FQA(A(rs)).Q, "exact")
    ops["AQUA.acc-mag"] = (amrow, lambda r: F.AQUA().estimate(r[0], r[1]), lambda rs: F.AQUA(acc=A(rs), mag=M(rs)).Q, "exact")
    ops["AQUA.acc-only"] = (amrow, lambda r: F.AQUA().estimate(r[0]), lambda rs: F.AQUA(acc=A(rs)).Q, "exact")
    W = np.array([2.0, 1.0])
    for m in ("symbolic", "eig", "newton"):
        ops["FLAE.%s[weights]" % m] = (amrow, lambda r, m=m: F.FLAE(magnetic_dip=-63.4, weights=W.copy()).estimate(r[0], r[1], method=m),
                                        lambda rs, m=m: F.FLAE(A(rs), M(rs), method=m, magnetic_dip=-63.4, weights=W.copy()).Q, "sign" if m == "eig" else "exact")
    ops["QUEST[weights]"] = (amrow, lambda r: F.QUEST(magnetic_dip=63.4, weights=W.copy()).estimate(r[0], r[1]), lambda rs: F.QUEST(A(rs), M(rs), magnetic_dip=63.4, weights=W.copy()).Q, "exact")
    ops["Davenport[weights]"] = (amrow, lambda r: F.Davenport(magnetic_dip=63.4, weights=W.copy()).estimate(r[0], r[1]), lambda rs: F.Davenport(A(rs), M(rs), magnetic_dip=63.4, weights=W.copy()).Q, "sign")

    def s_w(r):
        return F.OLEQ(magnetic_ref=60.0, frame="NED", weights=W.copy()).estimate(r[0], r[1])

    def b_w(rs):
        np.random.seed(7)
        return F.OLEQ(A(rs), M(rs), magnetic_ref=60.0, frame="NED", weights=W.copy()).Q
    ops["OLEQ.NED[weights]"] = (amrow, s_w, b_w, "oleq")
    ops["Complementary.am_estimation"] = (amrow, lambda r: F.Complementary().am_estimation(r[0], r[1]), lambda rs: F.Complementary().am_estimation(A(rs), M(rs)), "exact")
    ops["Complementary.am_estimation.acc-only"] = (amrow, lambda r: F.Complementary().am_estimation(r[0]), lambda rs: F.Complementary().am_estimation(A(rs)), "exact")
    # ---- every option left to its default on BOTH paths (the constructor's defaults and estimate()'s are the same options)
    ops["FLAE[defaults]"] = (amrow, lambda r: F.FLAE().estimate(r[0], r[1]), lambda rs: F.FLAE(A(rs), M(rs)).Q, "exact")
    ops["QUEST[defaults]"] = (amrow, lambda r: F.QUEST().estimate(r[0], r[1]), lambda rs: F.QUEST(A(rs), M(rs)).Q, "exact")
    ops["Davenport[defaults]"] = (amrow, lambda r: F.Davenport().estimate(r[0], r[1]), lambda rs: F.Davenport(A(rs), M(rs)).Q, "sign")
    ops["FQA[defaults]"] = (amrow, lambda r: F.FQA().estimate(r[0], r[1]), lambda rs: F.FQA(A(rs), M(rs)).Q, "exact")
    ops["TRIAD[defaults]"] = (amrow, lambda r: F.TRIAD().estimate(r[0], r[1]), lambda rs: F.TRIAD(A(rs), M(rs)).A, "exact")
    # ---- attributes an N-sample object publishes next to Q: the same attitudes in another representation
    ops["Tilt.angles-attribute"] = (amrow, lambda r: F.Tilt().estimate(r[0], r[1], representation="angles"),
                                    lambda rs: (lambda o: (o.Q, o.angles)[1])(F.Tilt(A(rs), M(rs))), "exact")
    # ---- frame helpers offered for one point and for N points
    from ahrs.common import frames as FR
    ops["ned2enu"] = (lambda c: amrow(c)[0], lambda r: FR.ned2enu(r.copy()), lambda rs: FR.ned2enu(stack(rs)), "exact")
    ops["enu2ned"] = (lambda c: amrow(c)[1], lambda r: FR.enu2ned(r.copy()), lambda rs: FR.enu2ned(stack(rs)), "exact")
    ops["am2angles"] = (amrow, lambda r: np.asarray(ori.am2angles(r[0].copy(), r[1].copy()))[0], lambda rs: ori.am2angles(A(rs), M(rs)), "exact")
    return ops


OPS = mk_quat_ops()
_v2 = np.array([1.0, 0.0, 2.0])
# one-sample constructor calls (1-D inputs): must equal the one-row batch / the scalar estimate, options honoured
ONE_SAMPLE = {
    "Tilt.quaternion": lambda r: F.Tilt(r[0], r[1]).Q, "Tilt.rotmat": lambda r: F.Tilt(r[0], r[1], representation="rotmat").Q,
    "Tilt.angles": lambda r: F.Tilt(r[0], r[1], representation="angles").Q, "Tilt.acc-only": lambda r: F.Tilt(r[0]).Q,
    "SAAM.quaternion": lambda r: F.SAAM(r[0], r[1]).Q,
    "TRIAD.rotmat": lambda r: F.TRIAD(r[0], r[1], v1=np.array([0.0, 0, 1]), v2=_v2).A,
    "TRIAD.quaternion": lambda r: F.TRIAD(r[0], r[1], v1=np.array([0.0, 0, 1]), v2=_v2, representation="quaternion").A,
    "TRIAD.ENU": lambda r: F.TRIAD(r[0], r[1], v2=_v2, frame="ENU").A,
    "Davenport": lambda r: F.Davenport(r[0], r[1], magnetic_dip=63.4).Q, "QUEST": lambda r: F.QUEST(r[0], r[1], magnetic_dip=63.4).Q,
    "FLAE.symbolic": lambda r: F.FLAE(r[0], r[1], method="symbolic", magnetic_dip=-63.4).Q,
    "FLAE.eig": lambda r: F.FLAE(r[0], r[1], method="eig", magnetic_dip=-63.4).Q,
    "FLAE.newton": lambda r: F.FLAE(r[0], r[1], method="newton", magnetic_dip=-63.4).Q,
    "FAMC": lambda r: F.FAMC(r[0], r[1]).Q, "FQA": lambda r: F.FQA(r[0], r[1], mag_ref=_v2).Q, "FQA.acc-only": lambda r: F.FQA(r[0]).Q,
    "AQUA.acc-mag": lambda r: F.AQUA(acc=r[0], mag=r[1]).Q, "AQUA.acc-only": lambda r: F.AQUA(acc=r[0]).Q,
}


def reform(row, form, op):
    """the same row in another form: integer dtype (raw counts) or scaled (non-normalised)"""
    if form in ("float", "held-first", "held-second", "nan-entry") or op in ("from_rpy", "from_angles", "rpy2q", "euclidean", "rmse", "is_pure", "is_real", "is_versor", "is_identity", "rmse_matrices", "is_identity[S]", "is_pure[S]"):
        return row          # angle triples have a documented range: not rescaled
    def one(x, k):
        x = np.asarray(x, dtype=float)
        if form == "near-unit":
            return x * (1.0 + (7e-6 if k else -8e-6))
        if form == "int-dtype":
            return np.rint(x * (100.0 if np.max(np.abs(x)) < 100 else 1.0)).astype(np.int64)
        return x * (2.5 if k else 0.3)
    if isinstance(row, tuple):
        return tuple(one(x, k) for k, x in enumerate(row))
    return one(row, 1)


def same(a, b, mode):
    a = np.asarray(a)
    b = np.asarray(b)
    if np.iscomplexobj(a) or np.iscomplexobj(b):
        return False
    a = a.astype(float)
    b = b.astype(float)
    if a.shape != b.shape:
        return False
    na, nb = np.isnan(a), np.isnan(b)
    if not np.array_equal(na, nb):
        return False
    a, b = np.nan_to_num(a), np.nan_to_num(b)
    if maxdiff(a, b) <= 1e-12:
        return True
    if mode == "sign" and maxdiff(a, -b) <= 1e-12:
        return True
    return False


def replay_cases(recs):
    t = Tally()
    for rec in recs:
        op, arr = rec["op"], rec["arr"]
        form = rec.get("form", "float")
        gen, scalar, batch, mode = OPS[op]
        rows = [reform(gen(c), form, op) for c in arr]
        if form in ("held-first", "held-second") and isinstance(rows[0], tuple):
            k_ = 0 if form == "held-first" else 1
            rows = [tuple(rows[0][j].copy() if j == k_ else r[j] for j in range(len(r))) for r in rows]
        if form == "nan-entry":
            rows = [tuple(np.where(np.arange(len(x)) == (i + j) % len(x), np.nan, np.asarray(x, dtype=float)) if j == 0 else x for j, x in enumerate(r)) for i, r in enumerate(rows)]
        if form != "float":
            op = op + "#" + form
        n = len(arr)
        t.keys.add((op, tuple(arr)))      # op carries the form suffix
        sc = []
        if mode == "oleq":
            # the one estimator that draws from NumPy's global RNG: one seed, then the rows in order, on both paths
            np.random.seed(7)
        for r in rows:
            t.calls += 1
            sc.append(core.outcome(lambda: scalar(r)))
        t.calls += 1
        bo = core.outcome(lambda: batch(rows))
        case = {"op": op, "arrangement": arr}
        if bo[0] != "ok":
            if any(s[0] != "ok" for s in sc):
                continue        # some row has no scalar value either: nothing to compare
            t.fail("C07|%s|batch-raises-%s|%s" % (op, bo[1], "with-half-turn-row" if "half-turn" in arr else "N=%d" % n), dict(case, err=bo[2]))
            continue
        B = np.asarray(bo[1])
        if B.shape[0] != n if B.ndim >= 1 else True:
            # (a one-row batch is a batch: no operation of the unchanged tree returns it squeezed)
            t.fail("C07|%s|batch-shape|N=%d" % (op, n), dict(case, shape=B.shape))
            continue
        for i, (s, c) in enumerate(zip(sc, arr)):
            if s[0] != "ok":
                t.fail("C07|%s|scalar-raises-%s-batch-returns|%s" % (op, s[1], c), dict(case, row=i, err=s[2], batch_row=B[i]))
                continue
            if not same(B[i], s[1], mode):
                t.fail("C07|%s|row-differs|%s" % (op, c), dict(case, row=i, batch_row=B[i], scalar=np.asarray(s[1])))
        if n == 1 and form == "float" and op in ONE_SAMPLE and sc[0][0] == "ok":
            t.calls += 1
            o1 = core.outcome(lambda: ONE_SAMPLE[op](rows[0]))
            if o1[0] != "ok":
                t.fail("C07|%s|one-sample-constructor-raises-%s|%s" % (op, o1[1], arr[0]), dict(case, err=o1[2]))
            elif not same(np.asarray(o1[1]), sc[0][1], mode):
                t.fail("C07|%s|one-sample-constructor-differs|%s" % (op, "any-row" if op.startswith("FLAE") else arr[0]), dict(case, ctor=np.asarray(o1[1]), estimate=np.asarray(sc[0][1])))
        if len(t.samples) < 2 and n == 5:
            t.samples.append({"op": op, "arrangement": arr})
    return t


def run(chk):
    quick = chk.tier == "quick"
    chk.rule = ("(twin pair, arrangement) cases enumerated by TLC: 69 twin pairs x arrangements of 8 row classes over N in {1,2,5} (thorough: {1,2,5,7}) "
                "(special rows -- half-turn, near-half-turn, near-identity, identity -- first / middle / last); distinct = distinct "
                "(pair, arrangement); all arrangements with a non-identity row are non-trivial")
    chk.assume("row i of the array path equals the scalar path on row i within 1e-12 (up to sign only for eigen-solver outputs), NaN "
               "pattern included; OLEQ draws from NumPy's global RNG: both paths are seeded identically per call")
    res = tlc.run_tlc("MC_Vectorised", core.spec_cfg("MC_Vectorised" if quick else "MC_Vectorised_thorough"), timeout=3600)
    chk.add_tlc("Vectorised[twin pairs x arrangements]", res)
    if res.violated:
        chk.fail("C07|spec|%s" % res.violated, {"tlc": res.output[-2000:]})
    recs = sorted(res.out_records, key=lambda r: (r["op"], r["arr"], r.get("form", "float")))
    if quick:
        recs = [r for i, r in enumerate(recs) if len(r["arr"]) < 5 or i % 6 == chk.seed % 6]
    else:
        chk.exhaustive = True
    tallies_ = core.pmap(replay_cases, recs)
    core.merge(chk, tallies_)
    chk.distinct = set(k for k in chk.distinct if not all(c == "identity" for c in k[1]))


def replay(chk, body):
    c = body["case"]
    core.merge(chk, [replay_cases([{"op": c["op"].split("#")[0], "arr": c["arrangement"], "form": (c["op"].split("#") + ["float"])[1]}])])
