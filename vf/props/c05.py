"""C05 -- recursive filters converge to the sensed attitude from any initial orientation.

Specification: spec/ConvergenceMonitor.tla (safety automaton: error bounded by max(initial,
Tol) at every observation; within Tol from the budget on, absorbing), SensorWorld's
convention table for the motionless data.  TLC model-checks the automaton; the harness runs
every recursive filter/architecture/frame/gain from initial errors 0..175 degrees about
several axes at several exact true attitudes, observes the error every Stride samples and
TLC validates the observation traces (TraceConvergence) with the per-filter budget and
tolerance below (3 x the settle time and >= 30 x the plateau measured on the unchanged tree)."""
import math
import numpy as np

from .. import core, tlc
from ..core import Tally, g_unit, qmul_int
from .. import filters as FL
from .c06 import C, name_of

DIP = (1, 2)     # (cos, sin) of the magnetic dip: 63.43 degrees
DIPDEG = math.degrees(math.atan2(2, 1))
S5 = math.sqrt(5)

# cfg, extra kwargs, gravity ref, magnetic ref, type, budget [samples], tol [rad], route
TABLE = [
    (C("Madgwick", "IMU"), {"gain": 0.033}, (0, 0, 1), None, "B", 24000, 2e-3, "batch"),
    (C("Madgwick", "IMU", gain="high"), {"gain": 0.5}, (0, 0, 1), None, "B", 2400, 2e-2, "batch"),
    (C("Madgwick", "MARG"), {"gain": 0.041}, (0, 0, 1), (1 / S5, 0, 2 / S5), "B", 30000, 3e-3, "stream"),
    (C("Madgwick", "MARG", gain="high"), {"gain": 0.5}, (0, 0, 1), (1 / S5, 0, 2 / S5), "B", 3000, 2e-2, "stream"),
    # a field that points UP (negative inclination, as in the southern magnetic hemisphere)
    (C("Madgwick", "MARG", gain="high"), {"gain": 0.5}, (0, 0, 1), (2 / S5, 0, -1 / S5), "B", 3000, 2e-2, "stream"),
    (C("AQUA", "MARG", mode="fixed"), {}, (0, 0, 1), (2 / S5, 0, -1 / S5), "A", 5000, 1e-3, "batch"),
    (C("Mahony", "IMU"), {}, (0, 0, 1), None, "B", 8000, 1e-3, "batch"),
    (C("Mahony", "MARG"), {}, (0, 0, 1), (0, 1 / S5, 2 / S5), "B", 50000, 1.5e-3, "batch"),
    # a brisk proportional gain at a low rate (k_P Dt = 0.4: well inside the stable range k_P Dt < 2 of the explicit step)
    (C("Mahony", "IMU", gain="high"), {"k_P": 10.0, "frequency": 25.0}, (0, 0, 1), None, "B", 6000, 1e-3, "batch"),
    (C("Mahony", "MARG", gain="high"), {"k_P": 10.0, "frequency": 25.0}, (0, 0, 1), (0, 1 / S5, 2 / S5), "B", 12000, 3e-3, "batch"),
    (C("EKF", "IMU", frame="NED"), {}, (0, 0, 1), None, "B", 3000, 1e-3, "batch"),
    (C("EKF", "IMU", frame="ENU"), {}, (0, 0, -1), None, "B", 3000, 1e-3, "batch"),
    (C("EKF", "MARG", frame="NED"), {"magnetic_ref": DIPDEG}, (0, 0, 1), (1 / S5, 0, 2 / S5), "B", 20000, 1e-3, "batch"),
    (C("EKF", "MARG", frame="ENU"), {"magnetic_ref": DIPDEG}, (0, 0, -1), (0, 1 / S5, -2 / S5), "B", 20000, 1e-3, "batch"),
    (C("AQUA", "IMU", mode="fixed"), {}, (0, 0, 1), None, "A", 4000, 1e-3, "batch"),
    (C("AQUA", "MARG", mode="fixed"), {}, (0, 0, 1), (1 / S5, 0, 2 / S5), "A", 5000, 1e-3, "batch"),
    (C("AQUA", "MARG", mode="adaptive"), {}, (0, 0, 1), (1 / S5, 0, 2 / S5), "A", 5000, 1e-3, "batch"),
    # accelerometer in units of g (unit-norm samples): a filter on its defaults normalises the sample, so the unit does not matter
    (C("AQUA", "IMU", mode="-"), {"__acc_norm__": 1.0}, (0, 0, 1), None, "A", 4000, 1e-3, "batch"),
    (C("AQUA", "MARG", mode="-"), {"__acc_norm__": 1.0}, (0, 0, 1), (1 / S5, 0, 2 / S5), "A", 5000, 1e-3, "batch"),
    (C("Mahony", "IMU"), {"__acc_norm__": 1.0}, (0, 0, 1), None, "B", 8000, 1e-3, "batch"),
    (C("Madgwick", "IMU", gain="high"), {"gain": 0.5, "__acc_norm__": 1.0}, (0, 0, 1), None, "B", 2400, 2e-2, "batch"),
    (C("ROLEQ", "MARG", frame="NED"), {"magnetic_ref": DIPDEG}, (0, 0, -1), (2 / S5, 0, 1 / S5), "B", 600, 1e-3, "batch"),
    (C("ROLEQ", "MARG", frame="ENU"), {"magnetic_ref": DIPDEG}, (0, 0, 1), (0, 1 / S5, -2 / S5), "B", 600, 1e-3, "batch"),
    (C("Complementary", "MARG"), {}, (0, 0, 1), (1 / S5, 0, 2 / S5), "B", 400, 1e-3, "w0"),
    (C("FKF", "MARG"), {}, (0, 0, 1), (1 / S5, 0, 2 / S5), "B", 400, 1e-3, "own-init"),
    (C("UKF", "IMU"), {}, (0, 0, 1), None, "B", 3000, 2e-2, "batch"),
]
# (3, 3, 1, -1): the sensor on its side (roll exactly 90 degrees: the accelerometer reads exactly 0 on its z axis) and pitched by 36.87 degrees
TRUTHS = [(3, 1, -2, 1), (3, 3, 1, -1), (1, 1, 0, 0), (2, -1, 1, 3), (1, 0, 0, 2), (1, 2, -3, 1), (0, 1, 1, 1), (4, 3, 1, -9)]
AXES = [(1, 0, 0), (0, 0, 1), (1, -2, 2)]
# half-angle pairs of the initial error: 0, 30, 90, 150, 175 degrees
ERRS = {0: (1.0, 0.0), 30: (math.cos(math.radians(15)), math.sin(math.radians(15))), 90: (math.cos(math.pi / 4), math.sin(math.pi / 4)),
        150: (math.cos(math.radians(75)), math.sin(math.radians(75))), 175: (math.cos(math.radians(87.5)), math.sin(math.radians(87.5)))}
STRIDE = 50


def qmul(p, q):
    return np.array([p[0] * q[0] - p[1] * q[1] - p[2] * q[2] - p[3] * q[3], p[0] * q[1] + p[1] * q[0] + p[2] * q[3] - p[3] * q[2],
                     p[0] * q[2] - p[1] * q[3] + p[2] * q[0] + p[3] * q[1], p[0] * q[3] + p[1] * q[2] - p[2] * q[1] + p[3] * q[0]])


def one_run(args):
    ti, u, axis, deg, seed, silent = args
    cfg, extra, gref, href, typ, budget, tol, route = TABLE[ti]
    acc_norm = extra.get("__acc_norm__", 9.81)
    extra = {k_: v_ for k_, v_ in extra.items() if not k_.startswith("__")}
    cname = name_of(cfg) + ("|acc-in-g" if acc_norm != 9.81 else "") + ("|" + "|".join("%s=%s" % kv for kv in sorted(extra.items()) if kv[0] in ("gain", "k_P", "frequency")) if extra else "") + ("|field-pointing-up" if (href is not None and href[2] * gref[2] < 0) else "")
    t = Tally()
    t.traces = []
    R = core.g_rot(u)
    n = int(budget * 1.2) + 2 * STRIDE
    rng = core.rng(seed, "c05", ti, u, axis, deg)
    gyr = rng.normal(size=(n, 3)) * 1e-4
    if silent is not None:
        gyr[:, silent] = 0.0      # a noise realisation with one exactly silent axis
    Rm = R if typ == "A" else R.T
    acc = np.tile(Rm @ np.array(gref, dtype=float) * acc_norm, (n, 1))
    mag = np.tile(Rm @ np.array(href, dtype=float) * 48.0, (n, 1)) if href is not None else None
    truth = g_unit(u)
    c, s = ERRS[deg]
    ax = np.array(axis, dtype=float) / np.linalg.norm(axis)
    q0 = qmul(truth, np.r_[c, s * ax])
    q0 /= np.linalg.norm(q0)
    case = {"cfg": cname, "truth": u, "axis": axis, "initial_error_deg": deg, "route": route, "silent_gyro_axis": silent}
    t.calls += 1
    t.keys.add((cname, u, axis, deg))
    try:
        if route == "batch":
            Q = np.asarray(FL.batch(cfg, gyr, acc, mag, q0=q0.copy(), extra=extra)[1], dtype=float)
        elif route == "stream":
            obj = FL.create(cfg, extra=extra)
            q = q0.copy()
            rows = [q]
            for k in range(1, n):
                q = FL.step(cfg, obj, q, gyr[k], acc[k], None if mag is None else mag[k])
                rows.append(np.array(q, dtype=float))
            Q = np.array(rows)
        elif route == "w0":
            from ahrs.common.quaternion import Quaternion
            w0 = np.asarray(Quaternion(q0).to_angles(), dtype=float)
            ex = dict(extra)
            ex["w0"] = w0
            Q = np.asarray(FL.batch(cfg, gyr, acc, mag, extra=ex)[1], dtype=float)
        else:
            if deg != 0:
                return t          # no initial attitude can be given: started by its own initialiser, must stay at the truth
            Q = np.asarray(FL.batch(cfg, gyr, acc, mag, extra=extra)[1], dtype=float)
    except Exception as e:  # noqa
        t.fail("C05|%s|raises-%s|from-%d-deg" % (cname, type(e).__name__, deg), dict(case, err=str(e)[:200]))
        return t
    if not np.all(np.isfinite(Q)):
        t.fail("C05|%s|nan|from-%d-deg" % (cname, deg), dict(case, first_bad_row=int(np.argmax(~np.isfinite(Q).all(axis=1)))))
        return t
    if href is None:
        # accelerometer-only: tilt error = angle between the measured and the predicted gravity direction
        g = np.array(gref, dtype=float)
        errs = []
        for k in range(0, n, STRIDE):
            from ..sensorworld import M_float
            Rq = M_float(Q[k])
            pred = (Rq @ g) if typ == "A" else (Rq.T @ g)
            meas = acc[k] / np.linalg.norm(acc[k])
            errs.append(math.acos(max(-1.0, min(1.0, float(pred @ meas)))))
        e0 = errs[0]
    else:
        d = np.abs(Q[::STRIDE] @ truth)
        errs = list(2.0 * np.arccos(np.minimum(1.0, d)))
        e0 = errs[0]
    obs = [int(round(e * 1e6)) for e in errs[1:]]
    tr = {"cfg": cname, "init": int(round(e0 * 1e6)), "tol": int(round(tol * 1e6)), "budget": int(math.ceil(budget / STRIDE)), "errs": obs,
          "truth": list(u), "deg": deg}
    # the same verdict computed here, to name the failing clause; runs that pass are decided again by TLC on the trace
    bound = max(tr["init"], tr["tol"])
    failed_here = len(t.fails)
    for k, e in enumerate(obs):
        if k + 1 >= tr["budget"] and e > tr["tol"]:
            t.fail("C05|%s|not-converged-within-budget|from-%d-deg" % (cname, deg), dict(case, at_sample=(k + 1) * STRIDE, err_rad=e * 1e-6, tol=tol, budget=budget))
            break
    if len(t.fails) == failed_here:
        t.traces.append(tr)
    t.resid(cname, obs[-1] * 1e-6)
    if deg == 175 and not t.samples:
        t.samples.append({"cfg": cname, "truth": u, "initial_error_deg": deg, "budget_samples": budget, "tol_rad": tol, "final_error_rad": obs[-1] * 1e-6})
    return t


def run(chk):
    quick = chk.tier == "quick"
    chk.rule = ("runs = %d recursive filter configurations (IMU/MARG, NED/ENU, default and non-default gain) x exact true attitudes x error "
                "axes x initial errors {0, 30, 90, 150, 175} degrees, gyroscope noise 1e-4 rad/s seeded (every second truth with one exactly silent axis); observation every 50 samples; "
                "distinct = distinct (configuration, truth, axis, initial error); trivial (not counted) = 0-degree starts" % len(TABLE))
    chk.assume("motionless data are exact images of each filter's references (SensorWorld convention table); budget = 3 x the settle time "
               "and tol >= 30 x the plateau measured on the unchanged tree (table in the source); UKF's loss of positive definiteness from large initial errors is a known finding")
    res = tlc.run_tlc("MC_ConvergenceMonitor", core.spec_cfg("MC_ConvergenceMonitor"), timeout=600)
    chk.add_tlc("ConvergenceMonitor[errors 0..6, budgets 1..3, 5 observations]", res)
    if res.violated:
        chk.fail("C05|spec|%s" % res.violated, {"tlc": res.output[-2000:]})
    jobs = []
    truths = TRUTHS[:2] if quick else TRUTHS
    axes = AXES[:1] if quick else AXES
    degs = (0, 90, 175) if quick else (0, 30, 90, 150, 175)
    for ti in range(len(TABLE)):
        for ui, u in enumerate(truths):
            for ai, ax in enumerate(axes):
                for deg in degs:
                    if quick and TABLE[ti][5] > 25000 and (ui > 0 or deg == 90):
                        continue      # the slowest configurations: one truth, 0 and 175 degrees in the quick tier
                    jobs.append((ti, u, AXES[(ai + ui) % len(AXES)] if quick else ax, deg, chk.seed,
                                 None if ui % 2 == 0 else (ti + ui + ai) % 3))
            if quick and TABLE[ti][5] <= 25000:
                # far starts about the other error axes as well (a wrong term of a Jacobian only bites in some directions)
                for ax in AXES:
                    for deg in (150, 175):
                        if (ti, u, ax, deg) not in [(j[0], j[1], j[2], j[3]) for j in jobs]:
                            jobs.append((ti, u, ax, deg, chk.seed, None))
        if quick and TABLE[ti][5] <= 25000:
            # an attitude with a small scalar part and a large, unevenly spread vector part (a term of a Jacobian that is only right when
            # the vector part is small or symmetric shows here), from a moderate and a far start
            for u_, deg, ax in (((4, 3, 1, -9), 30, AXES[0]), ((4, 3, 1, -9), 90, AXES[0]), ((2, -1, 1, 3), 150, AXES[2]), ((2, -1, 1, 3), 175, AXES[1])):
                jobs.append((ti, u_, ax, deg, chk.seed, None))
        if quick and TABLE[ti][5] <= 25000 and TABLE[ti][3] is not None:
            # a level sensor heading far from North, started far away: the magnetometer rows of a Jacobian matter most there
            for deg in (150, 175):
                jobs.append((ti, (1, 0, 0, 2), AXES[0], deg, chk.seed, None))
    jobs.sort(key=lambda j: -TABLE[j[0]][5])
    import multiprocessing as mp
    with mp.get_context("fork").Pool(16) as pool:
        tallies = pool.map(one_run, jobs, chunksize=1)
    core.merge(chk, tallies)
    chk.distinct = set(k for k in chk.distinct if k[3] != 0)
    traces = [tr for tl in tallies for tr in tl.traces]
    core.validate_traces(chk, "TraceConvergence", core.spec_cfg("TraceConvergence"), traces, "convergence",
                         lambda tr, i: "C05|%s|trace-rejected|from-%d-deg" % (tr["cfg"], tr["deg"]), timeout=1800)


def replay(chk, body):
    run(chk)
