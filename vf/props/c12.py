"""C12 -- SLERP follows the shortest geodesic at constant speed; NaN gaps are filled along it;
sign jumps are removed.

Specification: spec/SlerpArray.tla (+ MC_SlerpArray, TraceSlerp).  The abstract state of an
array on a one-parameter subgroup is (sign, NaN) per row; TLC explores every sign pattern x
interior NaN mask, checks NoJumpAfterRJ / FilledContinuesLeft / NoJumpBetweenValid /
Idempotent / ZeroGapsZeroJumps, and emits the transition table and the interpolation cases.
The harness concretises the subgroup (exact rows q0 * u^k / |.|) and compares rows."""
import math
import numpy as np

from .. import core, tlc
from ..core import Tally, maxdiff, g_unit, qmul_int
from ahrs.common.quaternion import QuaternionArray, slerp as slerp_q
from ahrs.common import orientation as ori

TOL = 1e-12
# (q0, u): rows are q0 * u^k; step angle 2 atan(|v|/w) must satisfy (MaxGap+1) * angle < pi
SUBGROUPS = [((1, 0, 0, 0), (6, 1, 0, 0)), ((2, -1, 3, 1), (5, 1, -1, 1)), ((1, 2, -2, 0), (12, 1, 2, 2)), ((0, 1, 0, 0), (9, 0, -2, 1)),
             # around (1,1,1,1)/2, the 120-degree rotation about the body diagonal (all four components of equal size: a sign flip there
             # changes every component by exactly 1), in slow rotation about that diagonal, and at rest
             ((1, 1, 1, 1), (60, 1, 1, 1)), ((1, 1, 1, 1), (1, 0, 0, 0)), ((30, 29, 30, 31), (80, -1, -1, -1))]


def rows_of(sub, n):
    q0, u = sub
    out = []
    p = (1, 0, 0, 0)
    for k in range(n):
        out.append(g_unit(qmul_int(q0, p)))
        p = qmul_int(p, u)
    return np.array(out)


def build(rows, sg, nn):
    a = rows[:len(sg)] * np.array(sg, dtype=float)[:, None]
    a[np.array(nn, dtype=bool)] = np.nan
    return a


def alpha_rows(arr, rows):
    """float array -> (signs, nan mask) or None if a row is neither NaN nor +-row"""
    sg, nn = [], []
    for i, r in enumerate(np.asarray(arr, dtype=float)):
        if np.all(np.isnan(r)):
            sg.append(0)
            nn.append(True)
        elif maxdiff(r, rows[i]) <= 1e-9:
            sg.append(1)
            nn.append(False)
        elif maxdiff(r, -rows[i]) <= 1e-9:
            sg.append(-1)
            nn.append(False)
        else:
            return None
    return sg, nn


def make_QA_S(arr):
    """the same sequence held scalar-last (order='S'): columns rolled on the way in, results rolled back by the caller"""
    a = np.roll(np.array(arr, dtype=float), -1, axis=1)
    mask = np.any(np.isnan(a), axis=1)
    tmp = a.copy()
    tmp[mask] = [0.0, 0.0, 0.0, 1.0]
    Q = QuaternionArray(tmp, order="S")
    Q.array[mask] = np.nan
    return Q


def make_QA(arr, partial=False):
    """QuaternionArray refuses NaN rows at construction (norm > 0 test), as the repository's own
    test does: build from valid rows, then punch the gaps (partial: a gap row has lost only one of its components)"""
    a = np.array(arr, dtype=float)
    mask = np.any(np.isnan(a), axis=1)
    tmp = a.copy()
    tmp[mask] = [1.0, 0.0, 0.0, 0.0]
    Q = QuaternionArray(tmp)
    if partial:
        for i in np.where(mask)[0]:
            Q.array[i, i % 4] = np.nan
    else:
        Q.array[mask] = np.nan
    return Q


def replay_table(args):
    recs, si = args
    t = Tally()
    sub = SUBGROUPS[si]
    for r in recs:
        n = len(r["sg"])
        rows = rows_of(sub, n)
        arr = build(rows, r["sg"], r["nn"])
        has_nan = any(r["nn"])
        jumps = sum(1 for i in range(1, n) if not r["nn"][i] and not r["nn"][i - 1] and r["sg"][i] != r["sg"][i - 1])
        cls = ("no-nan" if not has_nan else "nan") + ("+jumps" if jumps else "")
        t.keys.add(("array", si, tuple(r["sg"]), tuple(r["nn"])))
        case = {"subgroup": sub, "sg": r["sg"], "nn": r["nn"]}
        # remove_jumps (in place on the object)
        want = build(rows, r["rj"], r["nn"])
        routes = [("QuaternionArray.remove_jumps", lambda: (lambda Q: (Q.remove_jumps(), np.array(Q.array))[1])(make_QA(arr)))]
        routes.append(("QuaternionArray[order=S].remove_jumps", lambda: (lambda Q: (Q.remove_jumps(), np.roll(np.array(Q.array), 1, axis=1))[1])(make_QA_S(arr))))
        if not has_nan:
            routes.append(("q_correct", lambda: ori.q_correct(arr.copy())))
        for name, fn in routes:
            t.calls += 1
            o = core.outcome(fn)
            if o[0] != "ok":
                t.fail("C12|%s|raises-%s|%s" % (name, o[1], cls), dict(case, err=o[2]))
                continue
            got = np.asarray(o[1], dtype=float)
            if not (np.array_equal(np.isnan(got), np.isnan(want)) and maxdiff(np.nan_to_num(got), np.nan_to_num(want)) <= TOL):
                t.fail("C12|%s|rows-differ|%s" % (name, cls), dict(case, got=got, want=want))
        # slerp_nan, both modes
        want = build(rows, r["sn"], [False] * n)
        for inplace, partial in ((True, False), (False, False), (False, "S")) + (((True, True),) if has_nan else ()):
            t.calls += 1

            def fn():
                if partial == "S":
                    return np.roll(np.array(make_QA_S(arr).slerp_nan(inplace=False)), 1, axis=1)
                Q = make_QA(arr, partial=partial)
                ret = Q.slerp_nan(inplace=inplace)
                return np.array(Q.array) if inplace else np.array(ret)
            o = core.outcome(fn)
            name = "slerp_nan[inplace=%s]" % inplace + ("[order=S]" if partial == "S" else "[gap rows with one NaN component]" if partial else "")
            if o[0] != "ok":
                t.fail("C12|%s|raises-%s|%s" % (name, o[1], cls), dict(case, err=o[2]))
                continue
            got = np.asarray(o[1], dtype=float)
            d = maxdiff(got, want)
            t.resid("slerp_nan", d if np.isfinite(d) else 1.0)
            if not d <= TOL:
                mode = "nan-left" if np.any(np.isnan(got)) else "rows-differ"
                t.fail("C12|%s|%s|%s" % (name, mode, cls), dict(case, got=got, want=want))
        if len(t.samples) < 2 and has_nan and jumps:
            t.samples.append({"case": "array", "subgroup(q0,u)": sub, "signs": r["sg"], "nan": r["nn"], "after_remove_jumps": r["rj"], "after_slerp_nan": r["sn"]})
    return t


def replay_slerp(args):
    recs, si = args
    t = Tally()
    sub = SUBGROUPS[si]
    for c in recs:
        rows = rows_of(sub, max(c["a"], c["b"]) + 1)
        p = c["sa"] * rows[c["a"]]
        q = c["sb"] * rows[c["b"]]
        n = c["n"]
        ts = np.array([j / n for j in range(n + 1)])
        want = np.array([c["sign"] * rows[e] for e in c["expo"]])
        t.keys.add(("slerp", si, c["a"], c["b"], c["sa"], c["sb"], n))
        cls = "same" if c["a"] == c["b"] else "span%d" % abs(c["a"] - c["b"])
        for name, fn in (("quaternion.slerp", lambda: slerp_q(p.copy(), q.copy(), ts.copy())), ("orientation.slerp", lambda: ori.slerp(p.copy(), q.copy(), ts.copy()))):
            t.calls += 1
            o = core.outcome(fn)
            if o[0] != "ok":
                t.fail("C12|%s|raises-%s|%s" % (name, o[1], cls), {"case": c, "err": o[2]})
                continue
            got = np.asarray(o[1], dtype=float)
            d = maxdiff(got, want)
            t.resid("slerp", d)
            if not d <= TOL:
                t.fail("C12|%s|interpolants-differ-from-exact|%s" % (name, cls), {"case": c, "subgroup": sub, "got": got, "want": want})
        if len(t.samples) < 1 and c["a"] != c["b"] and n > 1:
            t.samples.append({"case": "slerp", "p": "%+d r^%d" % (c["sa"], c["a"]), "q": "%+d r^%d" % (c["sb"], c["b"]), "t": ts.tolist(), "expected_exponents": c["expo"]})
    return t


def relational(seed, n):
    """endpoint pairs that are not on a rational subgroup: nearly equal (LERP branch), orthogonal, nearly
    antipodal, generic; arbitrary weight vectors.  Laws: unit norm, endpoints, coplanar with p and q,
    angle from p = t * Omega (one acos), invariant under negating an endpoint, both copies agree."""
    t = Tally()
    r = core.rng(seed, "c12-rel")
    for i in range(n):
        kind = ["generic", "nearly-equal", "orthogonal", "nearly-antipodal", "lerp-edge", "equal"][i % 6]
        p = r.normal(size=4)
        p /= np.linalg.norm(p)
        d = r.normal(size=4)
        d -= p * (d @ p)
        d /= np.linalg.norm(d)
        if kind == "generic":
            om = r.uniform(0.05, math.pi / 2 - 0.05)
        elif kind == "nearly-equal":
            om = 10.0 ** r.uniform(-9, -3)
        elif kind == "orthogonal":
            om = math.pi / 2 - 1e-9
        elif kind == "nearly-antipodal":
            om = math.pi / 2 - 10.0 ** r.uniform(-6, -2)
        elif kind == "lerp-edge":
            om = math.acos(0.9995) * r.uniform(0.9, 1.1)
        else:
            om = 0.0
        q = math.cos(om) * p + math.sin(om) * d
        if kind == "nearly-antipodal":
            q = -q       # dot ~ -0: the code must flip
        q /= np.linalg.norm(q)
        ts = np.sort(np.r_[0.0, r.uniform(0, 1, size=int(r.integers(1, 6))), 1.0])
        t.keys.add((kind, i))
        outs = {}
        for name, fn in (("quaternion.slerp", lambda: slerp_q(p.copy(), q.copy(), ts.copy())), ("orientation.slerp", lambda: ori.slerp(p.copy(), q.copy(), ts.copy())),
                         ("quaternion.slerp[-q]", lambda: slerp_q(p.copy(), -q.copy(), ts.copy()))):
            t.calls += 1
            o = core.outcome(fn)
            if o[0] != "ok":
                t.fail("C12|%s|raises-%s|%s" % (name, o[1], kind), {"p": p, "q": q, "t": ts, "err": o[2]})
                continue
            outs[name] = np.asarray(o[1], dtype=float)
        if "quaternion.slerp" not in outs:
            continue
        A = outs["quaternion.slerp"]
        qn = q if p @ q >= 0 else -q          # nearer representative of the second endpoint
        Om = om if kind != "nearly-antipodal" else om      # the constructed angle (acos of the dot is ill-conditioned near 0)
        bad = None
        if not maxdiff(np.linalg.norm(A, axis=1), np.ones(len(ts))) <= 1e-12:
            bad = "not-unit"
        elif not (maxdiff(A[0], p) <= 1e-12 and maxdiff(A[-1], qn) <= 1e-12):
            bad = "endpoints"
        else:
            for row, tt in zip(A, ts):
                # coplanar with p, q: residual after projecting on span{p, d'}
                # the in-plane direction orthogonal to p is known exactly by construction (d), up to the
                # sign that puts the nearer endpoint at a positive angle
                e = d if (qn @ d) >= 0 else -d
                if Om > 0:
                    res = row - p * (row @ p) - e * (row @ e)
                    if np.linalg.norm(res) > 1e-12:
                        bad = "not-coplanar"
                    ang = math.atan2(row @ e, row @ p)
                    # constant speed; the LERP branch (dot > 0.9995) deviates by O(Omega^3)
                    lim = 1e-9 if Om > math.acos(0.9995) else 1e-9 + Om ** 3
                    if abs(ang - tt * Om) > lim:
                        bad = "angle-not-proportional"
        if bad:
            t.fail("C12|quaternion.slerp|%s|%s" % (bad, kind), {"p": p, "q": q, "t": ts, "got": A})
        for other in ("orientation.slerp", "quaternion.slerp[-q]"):
            if other in outs and not maxdiff(outs[other], A) <= 1e-12:
                t.fail("C12|%s|differs-from-quaternion.slerp|%s" % (other, kind), {"p": p, "q": q, "t": ts, "got": outs[other], "ref": A})
    return t


def record_traces(seed, n, N):
    """random call sequences on one live QuaternionArray; abstracted rows logged after each call"""
    r = core.rng(seed, "c12-traces")
    traces, fails = [], []
    for i in range(n):
        si = int(r.integers(len(SUBGROUPS)))
        rows = rows_of(SUBGROUPS[si], N)
        sg = [int(x) for x in r.choice([1, -1], size=N)]
        while True:
            nn = [bool(x) for x in (r.uniform(size=N) < 0.35)]
            nn[0] = nn[-1] = False
            run = best = 0
            for x in nn:
                run = run + 1 if x else 0
                best = max(best, run)
            if best <= 3:
                break
        Q = make_QA(build(rows, sg, nn))
        events = []
        acts = []
        try:
            for k in range(int(r.integers(1, 6))):
                u_ = r.uniform()
                if u_ < 0.3:
                    acts.append("RemoveJumps")
                    Q.remove_jumps()
                    ev = {"act": "RemoveJumps", "inplace": False}
                elif u_ < 0.6:
                    ip = bool(r.uniform() < 0.5)
                    acts.append("SlerpNan")
                    ret = Q.slerp_nan(inplace=ip)
                    if not ip:
                        Q = make_QA(np.array(ret))
                    ev = {"act": "SlerpNan", "inplace": ip}
                elif u_ < 0.8:
                    # a preview: the returned rows are looked at, the object lives on
                    acts.append("Preview")
                    ret = Q.slerp_nan(inplace=False)
                    rb = alpha_rows(np.asarray(ret, dtype=float), rows)
                    if rb is None or any(rb[1]):
                        fails.append(("C12|live-array|preview-rows-not-on-trajectory", {"subgroup": SUBGROUPS[si], "sg": sg, "nn": nn, "actions": acts, "returned": np.array(ret)}))
                        events = None
                        break
                    ev = {"act": "Preview", "inplace": False, "rsg": rb[0]}
                else:
                    cur = alpha_rows(np.asarray(Q, dtype=float), rows)
                    cand = [i for i in range(1, N - 1) if cur is not None and not cur[1][i]]
                    ok_rows = []
                    for i in cand:
                        m = list(cur[1]); m[i] = True
                        run = best = 0
                        for x in m:
                            run = run + 1 if x else 0
                            best = max(best, run)
                        if best <= 3:
                            ok_rows.append(i)
                    if not ok_rows:
                        continue
                    i = int(r.choice(ok_rows))
                    acts.append("Poke(%d)" % (i + 1))
                    Q[i] = np.nan          # through the ndarray interface of the live object
                    ev = {"act": "Poke", "inplace": True, "row": i + 1}
                # the object seen through its own buffer and through .array is one array
                b1, b2 = np.asarray(Q, dtype=float), np.asarray(Q.array, dtype=float)
                if not np.array_equal(b1, b2, equal_nan=True):
                    fails.append(("C12|live-array|buffer-and-.array-differ-after-%s" % ev["act"], {"subgroup": SUBGROUPS[si], "sg": sg, "nn": nn, "actions": acts, "buffer": b1, "array": b2}))
                    events = None
                    break
                ab = alpha_rows(Q.array, rows)
                if ab is None:
                    fails.append(("C12|live-array|row-not-on-trajectory-after-%s" % ev["act"], {"subgroup": SUBGROUPS[si], "sg": sg, "nn": nn, "actions": acts, "array": np.array(Q.array)}))
                    events = None
                    break
                ev["sg"] = [s if s else 1 for s in ab[0]]
                ev["nn"] = ab[1]
                events.append(ev)
        except Exception as e:  # noqa
            fails.append(("C12|live-array|raises-%s-in-%s" % (type(e).__name__, acts[-1] if acts else "?"), {"sg": sg, "nn": nn, "actions": acts, "err": str(e)[:200]}))
            continue
        if events:
            traces.append({"sg": sg, "nn": nn, "events": events})
    return traces, fails


def run(chk):
    quick = chk.tier == "quick"
    N = 7 if quick else 9
    chk.rule = ("every sign pattern x interior NaN mask (runs <= 3) of an N-row array on a rational one-parameter subgroup "
                "(N=7 quick, 9 thorough), through remove_jumps / q_correct / slerp_nan (both modes); every (a, b, signs, n) "
                "interpolation case with exact interpolants, both copies of slerp; relational endpoint classes; recorded call "
                "sequences validated by TraceSlerp; distinct = distinct (subgroup, signs, mask) / slerp case; trivial (not "
                "counted) = arrays with neither NaN nor jump")
    chk.assume("rows = gamma(q0 * u^k); tolerance 1e-12 on rows; constant-speed law 1e-9 (+Omega^3 in the documented LERP branch)")
    res = tlc.run_tlc("MC_SlerpArray", core.spec_cfg("MC_SlerpArray_quick" if quick else "MC_SlerpArray_thorough"), timeout=1200)
    chk.add_tlc("SlerpArray[N=%d, all patterns, depth 2+]" % N, res)
    if res.violated:
        chk.fail("C12|spec|%s" % res.violated, {"tlc": res.output[-2000:]})
    table = [r for r in res.out_records if r.get("kind") == "array"]
    cases = [r for r in res.out_records if r.get("kind") != "array"]
    chk.exhaustive = True
    jobs = []
    for si in range(len(SUBGROUPS)):
        part = [r for k, r in enumerate(table) if k % len(SUBGROUPS) == si] if quick else table
        for c in range(0, len(part), 400):
            jobs.append((part[c:c + 400], si))

    def runjobs(fn, jobs):
        import multiprocessing as mp
        with mp.get_context("fork").Pool(16) as pool:
            return pool.map(fn, jobs)
    core.merge(chk, runjobs(replay_table, jobs))
    core.merge(chk, runjobs(replay_slerp, [(cases, si) for si in range(len(SUBGROUPS))]))
    core.merge(chk, [relational(chk.seed, 240 if quick else 6000)])
    traces, fails = record_traces(chk.seed, 400 if quick else 4000, N)
    for sig, rec in fails:
        chk.fail(sig, rec)
    chk.evaluations += sum(len(t["events"]) for t in traces)
    core.validate_traces(chk, "TraceSlerp", core.spec_cfg("TraceSlerp", N=str(N)), traces, "slerp",
                         lambda tr, i: "C12|trace-rejected|%s" % tr["events"][min(i, len(tr["events"])) - 1]["act"])
    chk.distinct = set(k for k in chk.distinct if not (k[0] == "array" and not any(k[3]) and len(set(k[2])) == 1))


def replay(chk, body):
    run(chk)
