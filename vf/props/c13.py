"""C13 -- a dropped-out sensor sample never corrupts a recursive filter.

Specification: spec/DropoutMonitor.tla (fault patterns: <= 2 dropout runs of 1..3 slots of
any kind in a 12-slot history; safety automaton: outcome never Poisoned, close again
Recover slots after the last visible fault), FilterCatalogue (which faults a configuration
can see, allowed outcomes).  TLC enumerates the 8 325 patterns; the harness stretches each
slot to 25 samples of a motionless sensor, runs every recursive filter/architecture on the
faulted history and on the same history without the dropout, abstracts each slot to
(outcome, close) and TLC validates the traces (TraceDropout)."""
import math
import numpy as np

from .. import core, tlc
from ..core import Tally, g_unit
from .. import filters as FL
from .c06 import C, name_of

SLOT = 25
NSLOTS = 12
RECOVER = 4
TRUTHS = [(3, 1, -2, 1), (1, 0, 0, 0), (2, -1, 1, 3)]

# (cfg, extra kwargs, closeness tolerance [rad])
UNDER_TEST = [
    (C("Madgwick", "IMU"), {}, 5e-3), (C("Madgwick", "MARG"), {}, 5e-3),
    (C("Mahony", "IMU"), {}, 5e-3), (C("Mahony", "MARG"), {}, 5e-3),
    (C("EKF", "IMU", frame="NED"), {}, 5e-3), (C("EKF", "MARG", frame="NED"), {"magnetic_ref": 63.43494882292201}, 5e-3),
    (C("UKF", "IMU"), {}, 2e-2),
    (C("AQUA", "IMU", mode="fixed"), {}, 5e-3), (C("AQUA", "MARG", mode="fixed"), {}, 5e-3), (C("AQUA", "MARG", mode="adaptive"), {}, 5e-3),
    (C("ROLEQ", "MARG", frame="NED"), {"magnetic_ref": 63.43494882292201}, 5e-3),
    (C("FKF", "MARG"), {}, 2e-2),
    (C("Complementary", "IMU"), {}, 5e-3), (C("Complementary", "MARG"), {}, 5e-3),
    (C("Fourati", "MARG"), {}, 2e-2),
    # a brisk non-default gain and a BIASED gyroscope: the steady-state estimate depends on the gain, so a run that comes out of a
    # dropout with another gain (or any other damaged carried state) no longer returns to the undisturbed estimates
    # (tolerance: the normalised gradient step of 0.5 rad/s x 0.01 s makes the estimate chatter by 5e-3 rad around its steady state)
    (C("Madgwick", "MARG", gain="high"), {"gain": 0.5, "__gyro_bias__": 0.2}, 3e-2),
]


def uses(cfg):
    return {"acc": cfg["arch"] != "GYR", "mag": cfg["arch"] in ("MARG", "ACCMAG"), "gyr": cfg["arch"] in ("IMU", "MARG", "GYR")}


def zeroes(fk, what):
    return {"ok": False, "acc0": what == "acc", "mag0": what == "mag", "gyr0": what == "gyr", "accmag0": what in ("acc", "mag"), "all0": True}[fk]


def history(u, pattern, seed, cfg, thin=False, bias=0.0, slot=None, rotating=False):
    SLOT = slot or globals()["SLOT"]
    R = core.g_rot(u)
    n = SLOT * NSLOTS
    rng = core.rng(seed, "c13", u)
    gref = np.array([0.0, 0.0, -1.0]) if cfg["f"] == "ROLEQ" else np.array([0.0, 0.0, 1.0])
    href = np.array([2.0, 0.0, 1.0]) / math.sqrt(5) if cfg["f"] == "ROLEQ" else np.array([1.0, 0.0, 2.0]) / math.sqrt(5)
    if rotating:
        # a body turning at about 1 rad/s: q_k+1 = q_k (x) dq(w dt), the gyroscope reads the body rate w, the other sensors read the
        # references in the body frame R(q_k)^T ref (physically consistent at every sample)
        from ..sensorworld import M_float
        dt = 0.01
        w = np.array([0.6, -0.5, 0.62])
        th = np.linalg.norm(w) * dt
        dq = np.r_[math.cos(th / 2), math.sin(th / 2) * w / np.linalg.norm(w)]
        q = core.g_unit(u)
        acc, mag = np.zeros((n, 3)), np.zeros((n, 3))
        for k in range(n):
            Rk = M_float(q)
            acc[k], mag[k] = Rk.T @ gref * 9.81, Rk.T @ href * 48.0
            q = np.array([q[0] * dq[0] - q[1] * dq[1] - q[2] * dq[2] - q[3] * dq[3], q[0] * dq[1] + q[1] * dq[0] + q[2] * dq[3] - q[3] * dq[2],
                          q[0] * dq[2] - q[1] * dq[3] + q[2] * dq[0] + q[3] * dq[1], q[0] * dq[3] + q[1] * dq[2] - q[2] * dq[1] + q[3] * dq[0]])
            q /= np.linalg.norm(q)
        gyr = np.tile(w, (n, 1)) + rng.normal(size=(n, 3)) * 1e-4
    else:
        acc = np.tile(R.T @ gref * 9.81, (n, 1))
        mag = np.tile(R.T @ href * 48.0, (n, 1))
        gyr = rng.normal(size=(n, 3)) * 1e-3 + np.array([bias, -0.5 * bias, 0.25 * bias])
    ga, aa, ma = gyr.copy(), acc.copy(), mag.copy()
    for i, fk in enumerate(pattern):
        # a dropout lasts the whole slot, or (thin) only its first sample: single-sample dropouts
        sl = slice(i * SLOT, i * SLOT + 1) if thin else slice(i * SLOT, (i + 1) * SLOT)
        if zeroes(fk, "acc"):
            aa[sl] = 0.0
        if zeroes(fk, "mag"):
            ma[sl] = 0.0
        if zeroes(fk, "gyr"):
            ga[sl] = 0.0
    return (gyr, acc, mag), (ga, aa, ma)


def angle(p, q):
    d = abs(float(np.dot(p, q)))
    return 2.0 * math.acos(min(1.0, d))


def run_cfg(args):
    ti, patterns, seed = args
    cfg, extra0, tol = UNDER_TEST[ti]
    bias_ = extra0.get("__gyro_bias__", 0.0)
    extra = {k: v for k, v in extra0.items() if not k.startswith("__")}
    cname = name_of(cfg)
    us = uses(cfg)
    t = Tally()
    t.traces = []
    can_stream = cfg["f"] in ("Madgwick", "Mahony", "EKF", "UKF", "AQUA", "ROLEQ", "Fourati")
    for pi, pattern in enumerate(patterns):
        forced_thin, long_ = None, False
        if isinstance(pattern, dict):
            pattern, forced_thin, long_ = pattern["pattern"], pattern["thin"], pattern.get("long", False)
        SLOT = 150 if long_ else globals()["SLOT"]      # long: slots of 1.5 s, a dropout of 4.5 s while the body keeps turning
        if long_ and cfg["f"] in ("EKF", "UKF"):
            # these two freeze the estimate for the whole dropout (the prediction is skipped with the correction) and then re-converge
            # over thousands of samples, as from any large initial error (C05): outside the fixed recovery window of the monitor
            continue
        u = TRUTHS[pi % len(TRUTHS)]
        stream = can_stream and pi % 2 == 1
        thin = (pi % 3 == 2) if forced_thin is None else forced_thin
        clean, faulted = history(u, pattern, seed, cfg, thin=thin, bias=0.0 if long_ else bias_, slot=SLOT, rotating=long_)
        kinds = sorted(set(pattern) - {"ok"})
        visible = [fk for fk in kinds if any(us[w] and zeroes(fk, w) for w in ("acc", "mag", "gyr"))]
        case = {"cfg": cname, "pattern": pattern, "truth": u, "single_sample_dropouts": thin, "rotating_body_long_dropout": long_}
        t.calls += 2
        t.keys.add((cname, tuple(pattern), thin, long_))
        try:
            ref = np.asarray(FL.batch(cfg, *clean, extra=extra)[1], dtype=float)
        except Exception as e:  # noqa
            t.fail("C13|%s|reference-run-raises-%s" % (cname, type(e).__name__), dict(case, err=str(e)[:200]))
            continue
        events = []
        route = "batch"
        try:
            if stream:
                # sample-by-sample through update(): the caller keeps feeding whatever the filter returned
                route = "stream"
                obj = FL.create(cfg, extra=extra)
                q = ref[0].copy()
                rows = [q]
                g_, a_, m_ = faulted
                refused_at = None
                for k_ in range(1, len(g_)):
                    try:
                        q = FL.step(cfg, obj, q, g_[k_], a_[k_], m_[k_])
                    except ValueError:
                        refused_at = k_
                        break
                    rows.append(np.array(q, dtype=float))
                t.calls += 1
                emitted = np.array(rows)
                if not (np.all(np.isfinite(emitted)) and np.max(np.abs(np.linalg.norm(emitted, axis=1) - 1.0)) <= 1e-9):
                    bad_row = int(np.argmax(~np.isfinite(emitted).all(axis=1) | (np.abs(np.linalg.norm(emitted, axis=1) - 1.0) > 1e-9)))
                    upto = set(pattern[:bad_row // SLOT + 1]) - {"ok"}
                    t.fail("C13|%s|%s|poisoned" % (cname, "+".join(sorted(upto)) or "none"), dict(case, route="stream", row=bad_row, got=emitted[bad_row]))
                    continue
                if refused_at is not None:
                    raise ValueError("update refused sample %d" % refused_at)
                out = emitted
            else:
                out = np.asarray(FL.batch(cfg, *faulted, extra=extra)[1])
        except ValueError as e:
            # allowed: the run refuses the faulted sample -- if the history has a fault this configuration can see
            if not visible:
                t.fail("C13|%s|rejects-a-history-without-visible-fault" % cname, dict(case, err=str(e)[:200]))
                continue
            first = next(i for i, fk in enumerate(pattern) if any(us[w] and zeroes(fk, w) for w in ("acc", "mag", "gyr")))
            events = [{"outcome": "Ok", "close": True, "held": True} for _ in range(first)] + [{"outcome": "Rejected", "close": False, "held": True}]
            t.traces.append({"cfg": cname, "pattern": pattern, "uses_acc": us["acc"], "uses_mag": us["mag"], "uses_gyr": us["gyr"], "events": events})
            continue
        except Exception as e:  # noqa
            t.fail("C13|%s|%s|raises-%s" % (cname, "+".join(visible) or "no-visible-fault", type(e).__name__), dict(case, err=str(e)[:200]))
            continue
        if np.iscomplexobj(out) or out.shape != ref.shape:
            t.fail("C13|%s|%s|wrong-shape-or-dtype" % (cname, "+".join(visible)), dict(case, shape=out.shape))
            continue
        out = out.astype(float)
        poisoned_at = None
        for i in range(NSLOTS):
            rows = out[i * SLOT:(i + 1) * SLOT]
            ok = np.all(np.isfinite(rows)) and np.max(np.abs(np.linalg.norm(rows, axis=1) - 1.0)) <= 1e-9
            if not ok:
                poisoned_at = i
                events.append({"outcome": "Poisoned", "close": False, "held": False})
                break
            ang_ = angle(rows[-1], ref[(i + 1) * SLOT - 1])
            close = ang_ <= tol
            # held: at the end of a faulted slot the run is where dead reckoning from its last estimate puts it (a body at rest: where it
            # was, up to the drift the configured gyroscope bias allows over the samples zeroed so far); rotating histories are not judged
            nz = (1 if thin else SLOT) * sum(1 for j in range(i + 1) if pattern[j] != "ok")
            held = True if long_ else bool(ang_ <= 2.0 * tol + 1.5 * 1.15 * abs(bias_) * nz * 0.01 + 1e-3)
            events.append({"outcome": "Ok", "close": bool(close), "held": held})
        if poisoned_at is not None:
            upto = set(pattern[:poisoned_at + 1]) - {"ok"}
            t.fail("C13|%s|%s|poisoned" % (cname, "+".join(sorted(upto)) or "none"), dict(case, route=route, slot=poisoned_at, rows=out[poisoned_at * SLOT:poisoned_at * SLOT + 3]))
            continue
        # recovery, decided here as well (TLC decides it again on the trace)
        since = RECOVER
        for i, ev in enumerate(events):
            vis = any(us[w] and zeroes(pattern[i], w) for w in ("acc", "mag", "gyr"))
            since = 0 if vis else since + 1
            if vis and pattern[0] == "ok" and (i == 0 or events[i - 1]["close"]) and not ev["held"]:
                t.fail("C13|%s|%s|correction-not-skipped-during-the-dropout" % (cname, "+".join(visible)),
                       dict(case, slot=i, angle=angle(out[(i + 1) * SLOT - 1], ref[(i + 1) * SLOT - 1]), tol=tol, route=route))
                break
            if since >= RECOVER and pattern[0] == "ok" and not ev["close"]:
                t.fail("C13|%s|%s|not-recovered" % (cname, "+".join(visible) or "no-visible-fault"),
                       dict(case, slot=i, angle=angle(out[(i + 1) * SLOT - 1], ref[(i + 1) * SLOT - 1]), tol=tol))
                break
        t.traces.append({"cfg": cname, "pattern": pattern, "uses_acc": us["acc"], "uses_mag": us["mag"], "uses_gyr": us["gyr"], "events": events})
    if patterns:
        t.samples.append({"cfg": cname, "pattern": patterns[len(patterns) // 2], "slot_samples": SLOT})
    return t


def run(chk):
    quick = chk.tier == "quick"
    chk.rule = ("fault patterns enumerated by TLC (<= 2 dropout runs of 1..3 slots, kinds acc0/mag0/gyr0/accmag0/all0, 12 slots of 25 "
                "samples) x %d recursive filter/architecture configurations x 3 true attitudes; quick = a seeded sample of the patterns "
                "containing every kind; distinct = distinct (configuration, pattern); all patterns contain a fault" % len(UNDER_TEST))
    chk.assume("poisoned = NaN/inf/non-unit row; close = angle to the estimate on the same history without dropout <= 5e-3 rad "
               "(2e-2 for UKF/FKF/Fourati) at the end of the slot; Recover = 4 slots (100 samples)")
    res = tlc.run_tlc("MC_DropoutMonitor", core.spec_cfg("MC_DropoutMonitor"), timeout=1200)
    chk.add_tlc("DropoutMonitor[all patterns x outcomes]", res)
    if res.violated:
        chk.fail("C13|spec|%s" % res.violated, {"tlc": res.output[-2000:]})
    pats = sorted([r["pattern"] for r in res.out_records])
    if quick:
        r = core.rng(chk.seed, "c13-sample")
        idx = sorted(r.choice(len(pats), size=48, replace=False).tolist())
        pats_used = [pats[i] for i in idx]
    else:
        pats_used = pats
        chk.exhaustive = True
    # always there, in both widths: one dropout run of one slot at the very start and one in the middle, of every kind
    n_slots = len(pats[0])
    for kind in ("acc0", "mag0", "gyr0", "accmag0", "all0"):
        for at in (0, 5):
            pat = [kind if i == at else "ok" for i in range(n_slots)]
            if pat in pats:
                pats_used = pats_used + [{"pattern": pat, "thin": True}, {"pattern": pat, "thin": False}]
    # a body that keeps turning through a dropout of 4.5 s (3 slots of 150 samples), of the kinds that blind the correction
    for kind in ("accmag0", "acc0", "mag0"):
        pat = ["ok"] * 3 + [kind] * 3 + ["ok"] * (n_slots - 6)
        pats_used = pats_used + [{"pattern": pat, "thin": False, "long": True}]
    jobs = []
    for ti in range(len(UNDER_TEST)):
        step = 16 if quick else 260
        for c in range(0, len(pats_used), step):
            jobs.append((ti, pats_used[c:c + step], chk.seed))
    import multiprocessing as mp
    with mp.get_context("fork").Pool(16) as pool:
        tallies = pool.map(run_cfg, jobs)
    core.merge(chk, tallies)
    traces = [tr for tl in tallies for tr in tl.traces if all(e["outcome"] != "Poisoned" for e in tr["events"])]
    for c in range(0, len(traces), 3000):
        core.validate_traces(chk, "TraceDropout", core.spec_cfg("TraceDropout"), traces[c:c + 3000], "dropout%d" % c,
                             lambda tr, i: "C13|%s|trace-rejected" % tr["cfg"])


def replay(chk, body):
    run(chk)
