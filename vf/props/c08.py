"""C08 -- gyro integration is exact for constant rates, of the stated order otherwise.

Specification: spec/Integrator.tla.  TLC checks ClosedFormExact / Semigroup on the closed
machine over 2O (orbits of any length) and on rational steps, ThetaSquared,
ConventionsAgree, SeriesLowOrders, and emits exact cases: q0 * u^k, the first-order step
q d + q*(0,w) (and its conjugate-convention twin), the order-K series c_K q + s_K q*(0,w)
as integer vectors.  gamma: rate = 2 atan2(|vec u|, u_w) / dt along vec u (one atan2)."""
import math
from fractions import Fraction
import numpy as np

from .. import core, tlc
from ..core import Tally, maxdiff, g_unit, qmul_int
from ahrs import filters as F
from ahrs.common.quaternion import QuaternionArray

DTS = [1e-3, 1e-2, 5e-2, 1.0 / 120.0, 1.0 / 60.0]      # incl. sampling rates whose period is not a round decimal


def rate_of(u, dt):
    v = np.array(u[1:], dtype=float)
    nv = math.sqrt(sum(int(c) * int(c) for c in u[1:]))
    if nv == 0:
        return np.zeros(3)
    return 2.0 * math.atan2(nv, u[0]) / dt * v / nv


def powq(u, k):
    out = (1, 0, 0, 0)
    for _ in range(k):
        out = qmul_int(out, u)
    return out


def series_exact(K, p, w, d):
    """mirror of Integrator!Series in exact rationals (any size)"""
    t2 = Fraction(sum(c * c for c in w), d * d)
    c = sum(Fraction((-1) ** j, math.factorial(2 * j)) * t2 ** j for j in range(K // 2 + 1))
    s = sum(Fraction((-1) ** j, math.factorial(2 * j + 1)) * t2 ** j for j in range((K - 1) // 2 + 1)) if K >= 1 else Fraction(0)
    pw = qmul_int(p, (0,) + tuple(w))
    return [c * pc + s * Fraction(x, d) for pc, x in zip(p, pw)]


def replay_cases(recs):
    t = Tally()
    for r in recs:
        kind = r["kind"]
        if kind == "closed":
            q0, u, k = r["q0"], r["u"], r["k"]
            if list(qmul_int(q0, powq(u, k))) != list(r["want"]):
                t.fail("C08|harness-mirror|closed", {"case": r})
            want = g_unit(r["want"])
            for dt in DTS:
                w = rate_of(u, dt)
                t.keys.add(("closed", tuple(q0), tuple(u), k, dt))
                ar = F.AngularRate(frequency=1.0 / dt)
                q = g_unit(q0)
                for i_ in range(k):
                    # the option is accepted in any letter case (the code lower-cases it to validate it)
                    q = np.asarray(ar.update(q, w, method=("closed", "Closed", "CLOSED")[i_ % 3]), dtype=float)
                    t.calls += 1
                d = maxdiff(q, want)
                t.resid("closed", d)
                if not d <= 1e-13 * (k + 1):
                    t.fail("C08|AngularRate.update(closed)|not-q0*r^k", {"q0": q0, "u": u, "k": k, "dt": dt, "got": q, "want": want})
                # batch route, explicit dt, and one step of k*dt
                for spelled in ("closed", "Closed"):
                    Q = np.asarray(F.AngularRate(gyr=np.tile(w, (k + 1, 1)), q0=g_unit(q0), Dt=dt, method=spelled).Q, dtype=float)
                    t.calls += 1
                    if not maxdiff(Q[-1], want) <= 1e-13 * (k + 1):
                        t.fail("C08|AngularRate(gyr).Q|not-q0*r^k", {"q0": q0, "u": u, "k": k, "dt": dt, "method": spelled, "got": Q[-1], "want": want})
                # the other representations the batch offers: row i is the matrix / the angles of attitude i -- row 0 (the initial attitude) included
                from ahrs.common.quaternion import Quaternion as _Q
                for rep, att, conv in (("rotmat", "R", lambda qq: np.asarray(_Q(qq).to_DCM(), dtype=float)), ("angles", "W", lambda qq: np.asarray(_Q(qq).to_angles(), dtype=float))):
                    t.calls += 1
                    o_ = core.outcome(lambda: np.asarray(getattr(F.AngularRate(gyr=np.tile(w, (k + 1, 1)), q0=g_unit(q0), Dt=dt, method="closed", representation=rep), att), dtype=float))
                    if o_[0] != "ok":
                        t.fail("C08|AngularRate(gyr, representation=%s)|raises-%s" % (rep, o_[1]), {"q0": q0, "u": u, "k": k, "dt": dt, "err": o_[2]})
                        continue
                    Qq = np.asarray(F.AngularRate(gyr=np.tile(w, (k + 1, 1)), q0=g_unit(q0), Dt=dt, method="closed").Q, dtype=float)
                    for i_ in (0, k):
                        if not (o_[1].shape[0] == k + 1 and maxdiff(o_[1][i_], conv(Qq[i_])) <= 1e-12):
                            t.fail("C08|AngularRate(gyr, representation=%s)|row-is-not-the-attitude-of-that-sample|%s" % (rep, "first-row" if i_ == 0 else "last-row"),
                                   {"q0": q0, "u": u, "k": k, "dt": dt, "row": i_, "got": o_[1][i_], "want": conv(Qq[i_])})
                one = np.asarray(ar.update(g_unit(q0), w, method="closed", dt=k * dt), dtype=float)
                t.calls += 1
                if not maxdiff(one, want) <= 1e-13 * (k + 1):
                    t.fail("C08|AngularRate.update(closed)|k-steps-differ-from-one-step-of-k*dt", {"q0": q0, "u": u, "k": k, "dt": dt, "got": one, "want": want})
        elif kind == "first":
            q, w, d = r["q"], r["w"], r["d"]
            want = g_unit(r["want"])
            wantc = g_unit(r["wantconj"])
            fq = g_unit(q)
            for dt in DTS:
                gyr = np.array(w, dtype=float) * 2.0 / (d * dt)
                zero = np.zeros(3)
                t.keys.add(("first", tuple(q), tuple(w), d, dt))
                routes = [
                    ("Madgwick.updateIMU", lambda: F.Madgwick(Dt=dt).updateIMU(fq.copy(), gyr, zero), want),
                    ("Madgwick.updateMARG", lambda: F.Madgwick(Dt=dt).updateMARG(fq.copy(), gyr, zero, np.array([20.0, 1.0, 40.0])), want),
                    ("Mahony.updateIMU", lambda: F.Mahony(Dt=dt).updateIMU(fq.copy(), gyr, zero), want),
                    ("Mahony.updateIMU[b0]", lambda: F.Mahony(Dt=dt, b0=np.array([0.01, -0.02, 0.03])).updateIMU(fq.copy(), gyr, zero), want),
                    ("Mahony.updateMARG", lambda: F.Mahony(Dt=dt).updateMARG(fq.copy(), gyr, zero, np.array([20.0, 1.0, 40.0])), want),
                    ("Mahony.updateMARG[b0]", lambda: F.Mahony(Dt=dt, b0=np.array([0.01, -0.02, 0.03])).updateMARG(fq.copy(), gyr, zero, np.array([20.0, 1.0, 40.0])), want),
                    ("AQUA.updateIMU", lambda: F.AQUA(Dt=dt).updateIMU(fq.copy() * [1, -1, -1, -1], gyr, zero) * np.array([1, -1, -1, -1]), want),
                    ("AQUA.updateMARG", lambda: F.AQUA(Dt=dt).updateMARG(fq.copy() * [1, -1, -1, -1], gyr, zero, np.array([20.0, 1.0, 40.0])) * np.array([1, -1, -1, -1]), want),
                    ("EKF.f", lambda: (lambda x: x / np.linalg.norm(x))(F.EKF().f(fq.copy(), gyr, dt)), want),
                    ("ROLEQ.attitude_propagation", lambda: F.ROLEQ().attitude_propagation(fq.copy(), gyr, dt), want),
                    ("AngularRate.update(series,1)", lambda: F.AngularRate(Dt=dt).update(fq.copy(), gyr, method="series", order=1), want),
                    ("AngularRate.update(Series,1)", lambda: F.AngularRate(Dt=dt).update(fq.copy(), gyr, method="Series", order=1), want),
                ]
                # one object, first asked with an explicit step, then without: the second call advances by the object's own step
                other_dt = dt * 5.0
                mg = np.array([20.0, 1.0, 40.0])
                cj = np.array([1, -1, -1, -1])

                def twice(obj, call, conj=False):
                    q_in = fq.copy() * cj if conj else fq.copy()
                    call(obj, q_in.copy(), other_dt)
                    out = np.asarray(call(obj, q_in.copy(), None), dtype=float)
                    return out * cj if conj else out
                routes += [
                    ("Madgwick.updateIMU[after an explicit dt]", lambda: twice(F.Madgwick(Dt=dt), lambda o, q_, d_: o.updateIMU(q_, gyr, zero) if d_ is None else o.updateIMU(q_, gyr, zero, dt=d_)), want),
                    ("Madgwick.updateMARG[after an explicit dt]", lambda: twice(F.Madgwick(Dt=dt), lambda o, q_, d_: o.updateMARG(q_, gyr, zero, mg) if d_ is None else o.updateMARG(q_, gyr, zero, mg, dt=d_)), want),
                    ("Mahony.updateIMU[after an explicit dt]", lambda: twice(F.Mahony(Dt=dt), lambda o, q_, d_: o.updateIMU(q_, gyr, zero) if d_ is None else o.updateIMU(q_, gyr, zero, dt=d_)), want),
                    ("Mahony.updateMARG[after an explicit dt]", lambda: twice(F.Mahony(Dt=dt), lambda o, q_, d_: o.updateMARG(q_, gyr, zero, mg) if d_ is None else o.updateMARG(q_, gyr, zero, mg, dt=d_)), want),
                    ("AQUA.updateIMU[after an explicit dt]", lambda: twice(F.AQUA(Dt=dt), lambda o, q_, d_: o.updateIMU(q_, gyr, zero) if d_ is None else o.updateIMU(q_, gyr, zero, dt=d_), conj=True), want),
                    ("AQUA.updateMARG[after an explicit dt]", lambda: twice(F.AQUA(Dt=dt), lambda o, q_, d_: o.updateMARG(q_, gyr, zero, mg) if d_ is None else o.updateMARG(q_, gyr, zero, mg, dt=d_), conj=True), want),
                ]
                # the step size reaches the same first-order step however it is handed over: Dt=, frequency=, or per call on an object
                # built with another step size; ROLEQ's complete update dead-reckons when both observations are null
                fcj = fq.copy() * cj
                for how, mk, kw in (("Dt=", lambda C: C(Dt=dt), {}), ("frequency=", lambda C: C(frequency=1.0 / dt), {}),
                                    ("per-call dt", lambda C: C(), {"dt": dt}), ("per-call dt on Dt=other", lambda C: C(Dt=other_dt), {"dt": dt})):
                    if how != "Dt=":
                        routes += [
                            ("Madgwick.updateIMU[%s]" % how, lambda mk=mk, kw=kw: mk(F.Madgwick).updateIMU(fq.copy(), gyr, zero, **kw), want),
                            ("Madgwick.updateMARG[%s]" % how, lambda mk=mk, kw=kw: mk(F.Madgwick).updateMARG(fq.copy(), gyr, zero, mg, **kw), want),
                            ("Mahony.updateIMU[%s]" % how, lambda mk=mk, kw=kw: mk(F.Mahony).updateIMU(fq.copy(), gyr, zero, **kw), want),
                            ("Mahony.updateMARG[%s]" % how, lambda mk=mk, kw=kw: mk(F.Mahony).updateMARG(fq.copy(), gyr, zero, mg, **kw), want),
                            ("AQUA.updateIMU[%s]" % how, lambda mk=mk, kw=kw: mk(F.AQUA).updateIMU(fcj.copy(), gyr, zero, **kw) * cj, want),
                            ("AQUA.updateMARG[%s]" % how, lambda mk=mk, kw=kw: mk(F.AQUA).updateMARG(fcj.copy(), gyr, zero, mg, **kw) * cj, want),
                        ]
                    routes += [
                        ("ROLEQ.update[null observations, %s]" % how, lambda mk=mk, kw=kw: mk(F.ROLEQ).update(fq.copy(), gyr, zero, zero, **kw), want),
                        ("ROLEQ.update[null accelerometer, %s]" % how, lambda mk=mk, kw=kw: mk(F.ROLEQ).update(fq.copy(), gyr, zero, mg, **kw), want),
                    ]
                routes.append(("ROLEQ.update[after an explicit dt]", lambda: twice(F.ROLEQ(Dt=dt), lambda o, q_, d_: o.update(q_, gyr, zero, zero) if d_ is None else o.update(q_, gyr, zero, zero, dt=d_)), want))
                for name, fn, wv in routes:
                    t.calls += 1
                    o = core.outcome(fn)
                    if o[0] != "ok":
                        t.fail("C08|%s|raises-%s" % (name, o[1]), {"q": q, "w": w, "d": d, "dt": dt, "err": o[2]})
                        continue
                    dd = maxdiff(np.asarray(o[1], dtype=float), wv)
                    t.resid("first-order", dd)
                    if not dd <= 1e-12:
                        t.fail("C08|%s|not-the-first-order-step" % name, {"q": q, "w": w, "d": d, "dt": dt, "got": np.asarray(o[1]), "want": wv})
            del wantc
        else:
            q, w, d, K = r["q"], r["w"], r["d"], r["order"]
            ex = series_exact(K, q, w, d)
            # mirror check against TLC's integers (same direction)
            wi = r["want"]
            if any(Fraction(wi[i]) * ex[0] != Fraction(wi[0]) * ex[i] for i in range(4)):
                t.fail("C08|harness-mirror|series", {"case": r})
            want = g_unit(r["want"])
            dt = 1e-2
            gyr = np.array(w, dtype=float) * 2.0 / (d * dt)
            t.calls += 1
            t.keys.add(("series", tuple(q), tuple(w), d, K))
            o = core.outcome(lambda: np.asarray(F.AngularRate(Dt=dt).update(g_unit(q), gyr, method="series", order=K), dtype=float))
            if o[0] != "ok":
                t.fail("C08|AngularRate.update(series)|raises-%s" % o[1], {"case": r, "err": o[2]})
                continue
            dd = maxdiff(o[1], want)
            t.resid("series", dd)
            if not dd <= 1e-12:
                t.fail("C08|AngularRate.update(series)|order-%s|not-the-partial-sum" % ("0-1" if K <= 1 else ">=2"), {"q": q, "w": w, "d": d, "order": K, "got": o[1], "want": want})
            # the constructor route with the same method and order: row 1 is one step from q0
            t.calls += 1
            ob = core.outcome(lambda: np.asarray(F.AngularRate(gyr=np.tile(gyr, (3, 1)), q0=g_unit(q), Dt=dt, method="series", order=K).Q, dtype=float)[1])
            if ob[0] != "ok":
                t.fail("C08|AngularRate(gyr, series).Q|raises-%s" % ob[1], {"case": r, "err": ob[2]})
            elif not maxdiff(ob[1], want) <= 1e-12:
                t.fail("C08|AngularRate(gyr, series).Q|order-%s|not-the-partial-sum" % ("0-1" if K <= 1 else ">=2"), {"q": q, "w": w, "d": d, "order": K, "got": ob[1], "want": want})
        if len(t.samples) < 3 and kind not in [s.get("kind") for s in t.samples]:
            t.samples.append(r)
    return t


def _fo(q, w, dt):
    """float image of Integrator!FirstOrder (each exact single step is already compared with TLC's integers in replay_cases)"""
    p = np.array([-w[0] * q[1] - w[1] * q[2] - w[2] * q[3],
                  w[0] * q[0] + w[2] * q[2] - w[1] * q[3],
                  w[1] * q[0] - w[2] * q[1] + w[0] * q[3],
                  w[2] * q[0] + w[1] * q[1] - w[0] * q[2]])
    r = q + 0.5 * dt * p
    return r / np.linalg.norm(r)


def _closed(q, w, dt):
    n = float(np.linalg.norm(w))
    h = 0.5 * n * dt
    r = np.array([math.cos(h), *(math.sin(h) * np.asarray(w) / n)])
    a, b = q, r
    return np.array([a[0] * b[0] - a[1] * b[1] - a[2] * b[2] - a[3] * b[3],
                     a[0] * b[1] + a[1] * b[0] + a[2] * b[3] - a[3] * b[2],
                     a[0] * b[2] - a[1] * b[3] + a[2] * b[0] + a[3] * b[1],
                     a[0] * b[3] + a[1] * b[2] - a[2] * b[1] + a[3] * b[0]])


CJ = np.array([1.0, -1.0, -1.0, -1.0])
MG = np.array([20.0, 1.0, 40.0])
Z3 = np.zeros(3)
# (name, class, call(obj, q, w, **dt) -> q, conjugate convention?, model)
STEP_OBJECTS = [
    ("Madgwick.updateIMU", lambda: F.Madgwick, lambda o, q, w, **k: o.updateIMU(q, w, Z3, **k), False, _fo),
    ("Madgwick.updateMARG", lambda: F.Madgwick, lambda o, q, w, **k: o.updateMARG(q, w, Z3, MG, **k), False, _fo),
    ("Mahony.updateIMU", lambda: F.Mahony, lambda o, q, w, **k: o.updateIMU(q, w, Z3, **k), False, _fo),
    ("Mahony.updateMARG", lambda: F.Mahony, lambda o, q, w, **k: o.updateMARG(q, w, Z3, MG, **k), False, _fo),
    ("AQUA.updateIMU", lambda: F.AQUA, lambda o, q, w, **k: o.updateIMU(q, w, Z3, **k), True, _fo),
    ("AQUA.updateMARG", lambda: F.AQUA, lambda o, q, w, **k: o.updateMARG(q, w, Z3, MG, **k), True, _fo),
    ("ROLEQ.update[null observations]", lambda: F.ROLEQ, lambda o, q, w, **k: o.update(q, w, Z3, Z3, **k), False, _fo),
    ("AngularRate.update(closed)", lambda: F.AngularRate, lambda o, q, w, **k: o.update(q, w, method="closed", **k), False, _closed),
    ("AngularRate.update(series,1)", lambda: F.AngularRate, lambda o, q, w, **k: o.update(q, w, method="series", order=1, **k), False, _fo),
]


def replay_schedules(recs):
    """StepSource behaviours: one live object per schedule, each call compared with the step over the size the specification says it uses"""
    t = Tally()
    w = np.array([0.7, -1.1, 2.3])
    q0 = g_unit((3, 1, -2, 1))
    for ri, r in enumerate(recs):
        base = (2e-3, 1.0 / 120.0, 1e-2)[ri % 3]
        own, how, calls, used = r["own"], r["how"], list(r["calls"]), list(r["used"])
        t.keys.add(("schedule", own, how, tuple(calls)))
        for name, cls, call, conj, model in STEP_OBJECTS:
            def go():
                obj = cls()(Dt=own * base) if how == "Dt" else cls()(frequency=1.0 / (own * base))
                q = q0.copy()
                outs = []
                for a in calls:
                    kw = {} if a == 0 else {"dt": a * base}
                    q_in = q * CJ if conj else q.copy()
                    out = np.asarray(call(obj, q_in, w.copy(), **kw), dtype=float)
                    q = out * CJ if conj else out
                    outs.append(q.copy())
                return outs, float(obj.Dt)
            t.calls += len(calls)
            o = core.outcome(go)
            if o[0] != "ok":
                t.fail("C08|%s|schedule|raises-%s" % (name, o[1]), {"schedule": r, "base": base, "err": o[2]})
                continue
            outs, own_after = o[1]
            q = q0.copy()
            for i, u in enumerate(used):
                q = model(q, w, u * base)
                d = maxdiff(outs[i], q)
                t.resid("schedule", d)
                if not d <= 1e-12:
                    t.fail("C08|%s|schedule|call-does-not-integrate-over-the-step-it-was-given" % name,
                           {"schedule": r, "base": base, "call": i, "got": outs[i], "want": q})
                    break
                q = outs[i]
            if not abs(own_after - own * base) <= 1e-15:
                t.fail("C08|%s|schedule|own-step-moved" % name, {"schedule": r, "base": base, "Dt-after": own_after})
    return t


def in_range(seed, n):
    """rates 1e-2..10 rad/s, steps 1e-3..5e-2 s, up to 400 steps (float-only: expected by one cos/sin of the total
    angle), orbits in 2O, series order / remainder bound, recovered angular velocities"""
    t = Tally()
    r = core.rng(seed, "c08")
    for i in range(n):
        rate = 10.0 ** r.uniform(-2, 1)
        dt = 10.0 ** r.uniform(-3, math.log10(5e-2))
        steps = int(r.integers(1, 401))
        ax = r.normal(size=3)
        ax /= np.linalg.norm(ax)
        w = rate * ax
        q0 = r.normal(size=4)
        q0 /= np.linalg.norm(q0)
        th = rate * dt
        t.keys.add(("range", i))
        ar = F.AngularRate(Dt=dt)
        Q = np.asarray(F.AngularRate(gyr=np.tile(w, (steps + 1, 1)), q0=q0.copy(), Dt=dt).Q, dtype=float)
        t.calls += 1
        tot = steps * th / 2.0
        rq = np.r_[math.cos(tot), math.sin(tot) * ax]
        from .c05 import qmul
        want = qmul(q0, rq)
        d = min(maxdiff(Q[-1], want), maxdiff(Q[-1], -want))
        t.resid("closed-range", d)
        if not d <= 1e-12 + 4e-16 * steps:
            t.fail("C08|AngularRate(gyr).Q|closed-form-drifts", {"rate": rate, "dt": dt, "steps": steps, "got": Q[-1], "want": want, "diff": d})
        # series order K vs closed form: remainder bound, improving with the order
        one = np.asarray(ar.update(q0.copy(), w, method="closed"), dtype=float)
        prev = None
        h = th / 2.0
        for K in range(0, 7):
            sK = np.asarray(ar.update(q0.copy(), w, method="series", order=K), dtype=float)
            t.calls += 1
            e = maxdiff(sK, one)
            bound = 2.0 * h ** (K + 1) / math.factorial(K + 1) / (1.0 - h / (K + 2)) + 1e-15
            if not e <= bound:
                t.fail("C08|AngularRate.update(series)|order-%s|exceeds-remainder-bound" % ("0-1" if K <= 1 else ">=2"),
                       {"rate": rate, "dt": dt, "order": K, "err": e, "bound": bound})
            if prev is not None and e > max(prev, 1e-15) * 1.0000001 and e > 4e-16:
                t.fail("C08|AngularRate.update(series)|order-%s|worse-than-lower-order" % ("0-1" if K <= 1 else ">=2"), {"rate": rate, "dt": dt, "order": K, "err": e, "prev": prev})
            prev = e
        # angular velocities recovered from the sequence integrate back to it
        if steps >= 3:
            m = min(steps, 50)
            wrec = np.asarray(QuaternionArray(Q[:m + 1]).angular_velocities(dt), dtype=float)
            t.calls += 1
            qq = Q[0].copy()
            worst = 0.0
            for k_ in range(m):
                qq = np.asarray(ar.update(qq, wrec[k_], method="closed"), dtype=float)
                worst = max(worst, min(maxdiff(qq, Q[k_ + 1]), maxdiff(qq, -Q[k_ + 1])))
            if not worst <= m * (th ** 3 / 12.0) + 1e-12:
                t.fail("C08|angular_velocities|do-not-integrate-back", {"rate": rate, "dt": dt, "steps": m, "err": worst, "bound": m * th ** 3 / 12.0})
            # the same sequence held in other ways: scalar-last storage, a sequence with its signs flipped half-way (the same attitudes),
            # and a copy whose rows are not normalised (versors=False keeps them as given): the rates are those of the attitudes
            for how, mk in (("order=S", lambda: QuaternionArray(np.roll(Q[:m + 1], -1, axis=1), order="S")),
                            ("list-of-rows", lambda: QuaternionArray(Q[:m + 1].tolist()))):
                t.calls += 1
                o = core.outcome(lambda: np.asarray(mk().angular_velocities(dt), dtype=float))
                if o[0] != "ok":
                    t.fail("C08|angular_velocities[%s]|raises-%s" % (how, o[1]), {"rate": rate, "dt": dt, "steps": m, "err": o[2]})
                elif not (o[1].shape == wrec.shape and maxdiff(o[1], wrec) <= 1e-9 * (1.0 + float(np.max(np.abs(wrec))))):
                    t.fail("C08|angular_velocities[%s]|differs-from-the-rates-of-the-same-attitudes" % how,
                           {"rate": rate, "dt": dt, "steps": m, "got": o[1][:3], "want": wrec[:3]})
    # orbits in 2O: |w| dt in {pi/2, 2pi/3, pi}
    for u, order in (((1, 1, 0, 0), 8), ((1, 1, 1, 1), 6), ((0, 1, 0, 0), 4), ((1, 0, -1, 0), 8), ((1, -1, 1, -1), 6)):
        for steps in (8, 50, 400):
            dt = 0.01
            w = rate_of(u, dt)
            q0 = g_unit((1, 1, -1, 1))
            Q = np.asarray(F.AngularRate(gyr=np.tile(w, (steps + 1, 1)), q0=q0.copy(), Dt=dt).Q, dtype=float)
            t.calls += 1
            want = g_unit(qmul_int((1, 1, -1, 1), powq(u, steps % order)))
            d = min(maxdiff(Q[-1], want), maxdiff(Q[-1], -want))
            t.keys.add(("orbit", u, steps))
            if not d <= 1e-12:
                t.fail("C08|AngularRate(gyr).Q|orbit-in-2O", {"u": u, "steps": steps, "got": Q[-1], "want": want})
    return t


def run(chk):
    quick = chk.tier == "quick"
    chk.rule = ("exact cases emitted by TLC (closed form q0*u^k for 5 starts x 6 rational steps x k<=3 x 3 step sizes; first-order step "
                "through 11 routes; series orders 0..6) plus seeded in-range runs (rates 1e-2..10 rad/s, dt 1e-3..5e-2 s, up to 400 steps), "
                "orbits in 2O, remainder bounds and recovered angular velocities; distinct = distinct case; all non-trivial")
    chk.assume("gamma: rate = 2 atan2(|v|, w)/dt; tolerances 1e-13 per step (closed form), 1e-12 (first-order, series partial sums); "
               "series remainder bound 2 h^(K+1)/(K+1)!/(1 - h/(K+2)), h = |w| dt / 2")
    res = tlc.run_tlc("MC_Integrator", core.spec_cfg("MC_Integrator_group"), timeout=900)
    chk.add_tlc("Integrator[2O closed machine]", res)
    if res.violated:
        chk.fail("C08|spec|%s" % res.violated, {"tlc": res.output[-2000:]})
    res = tlc.run_tlc("MC_Integrator", core.spec_cfg("MC_Integrator_rational"), timeout=900)
    chk.add_tlc("Integrator[rational steps, k<=3]", res)
    if res.violated:
        chk.fail("C08|spec|%s" % res.violated, {"tlc": res.output[-2000:]})
    core.merge(chk, core.pmap(replay_cases, res.out_records))
    res = tlc.run_tlc("MC_StepSource", core.spec_cfg("MC_StepSource"), timeout=600)
    chk.add_tlc("StepSource[own step x call schedules of length <= 3]", res)
    if res.violated:
        chk.fail("C08|spec|%s" % res.violated, {"tlc": res.output[-2000:]})
    core.merge(chk, core.pmap(replay_schedules, res.out_records))
    core.merge(chk, [in_range(chk.seed, 40 if quick else 1500)])


def replay(chk, body):
    run(chk)
