"""C11 -- constructors only ever produce valid rotations and reject what cannot be one.

Specification: spec/Constructors.tla (decision table as a machine: Construct(call) sets
out = Expected(call)), MC_Constructors (emits the table), TraceConstructors (validates
what the real constructors did, with as-built deviations for open findings).
The harness concretises every call class at several exact directions and classifies
the outcome: valid (and then: unit, real, pointing the same way / proper rotation),
rejected (ValueError or TypeError), or something else (wrapped garbage, other exception)."""
import math
import numpy as np

from .. import core, tlc
from ..core import Tally, maxdiff, g_unit
from ahrs.common.quaternion import Quaternion, QuaternionArray, random_attitudes
from ahrs.common.dcm import DCM

DIRS4 = [(1, 0, 0, 0), (0, 0, 0, -1), (1, -2, 2, 4), (3, 1, -1, 5), (-1, 1, 1, 1), (0, 3, -4, 0)]
DIRS3 = [(1, 0, 0), (0, -1, 0), (1, 2, 2), (-2, 3, 6), (1, -1, 1)]
ROTS = [(1, 0, 0, 0), (1, 1, 0, 0), (0, 1, 2, 2), (3, 1, -2, 1), (1, 2, 2, -3), (0, 0, 1, 0)]


def vec(shape_len, fill, dec, k):
    d = (DIRS3 if shape_len == 3 else DIRS4)[k % (5 if shape_len == 3 else 6)]
    if shape_len not in (3, 4):
        d = tuple((DIRS4[k % 6] + DIRS4[(k + 1) % 6])[:shape_len])
        if not any(d):
            d = (1,) * shape_len
    v = [float(c) * 10.0 ** dec for c in d]
    if dec in (1, -1):
        # Constructors!NearUnit: the unit direction scaled by 1 +- 3 ppm
        nrm = math.sqrt(sum(c * c for c in d))
        v = [float(c) / nrm * (1.0 + dec * 3e-6) for c in d]
    if fill == "zero":
        v = [0.0] * shape_len
    elif fill == "nan":
        v[k % shape_len] = float("nan")
    elif fill == "inf":
        v[k % shape_len] = float("inf") * (1 if k % 2 else -1)
    elif fill == "string":
        v = list(v)
        v[k % shape_len] = "a"
    elif fill == "none-entry":
        v = list(v)
        v[k % shape_len] = None
    return v, d


def build_quat(c, k):
    """returns (callable, expected_direction_or_None)"""
    sh, fill, dec, versor = c["shape"], c["fill"], c["dec"], c["versor"]
    qlayout = None
    if "[" in sh:
        sh, qlayout = sh.split("[")[0], sh.split("[")[1].rstrip("]")
    if sh in ("v3", "v4", "v2", "v5"):
        n = int(sh[1])
        v, d = vec(n, fill, dec, k)
        arg = np.array(v) if fill in ("finite", "zero", "nan", "inf") and k % 2 == 0 else v
        if qlayout and fill in ("finite", "zero", "nan", "inf"):
            arg = np.array(v, dtype=float)
            if qlayout == "read-only":
                arg.setflags(write=False)
            else:
                table = np.full((n, 5), 0.25)
                table[:, k % 5] = arg
                arg = table[:, k % 5]           # one column of a table of samples
        want = (0,) + tuple(d) if n == 3 else d
        return (lambda: Quaternion(arg, versor=versor)), want
    if sh == "m1x4":
        v, d = vec(4, fill, dec, k)
        return (lambda: Quaternion([v], versor=versor)), None
    if sh == "scalar":
        return (lambda: Quaternion(3.0 * 10.0 ** dec, versor=versor)), None
    return (lambda: Quaternion([], versor=versor)), None


def build_array(c, k):
    sh, fill, dec, versor = c["shape"], c["fill"], c["dec"], c["versor"]
    N = (1, 2, 5)[k % 3]
    layout = None
    if "[" in sh:
        sh, layout = sh.split("[")[0], sh.split("[")[1].rstrip("]")
    if sh in ("N3", "N4", "N2", "N5"):
        n = int(sh[1])
        rows, dirs = [], []
        base_fill = fill if fill not in ("one-zero-row", "one-nan-row") else "finite"
        for i in range(N):
            v, d = vec(n, base_fill, dec, k + i)
            rows.append(v)
            dirs.append((0,) + tuple(d) if n == 3 else d)
        if fill == "one-zero-row":
            rows[k % N] = [0.0] * n
        if fill == "one-nan-row":
            rows[k % N] = [float("nan")] * n
        arg = np.array(rows) if base_fill in ("finite", "zero", "nan", "inf") else rows
        if base_fill not in ("finite", "zero", "nan", "inf"):
            layout = None       # strings / None entries cannot live in a float array of any layout
        if layout == "F-order":
            arg = np.asfortranarray(np.array(rows, dtype=float))
        elif layout == "strided-view":
            big = np.full((2 * N, 2 * n), 7.5)
            big[::2, ::2] = np.array(rows, dtype=float)
            arg = big[::2, ::2]
        return (lambda: QuaternionArray(arg, versors=versor)), dirs
    if sh == "v4":
        v, d = vec(4, fill if fill in Fills_basic else "finite", dec, k)
        return (lambda: QuaternionArray(np.array(v) if all(isinstance(x, float) for x in v) else v, versors=versor)), None
    if sh == "NxNx4":
        return (lambda: QuaternionArray(np.ones((2, 2, 4)) * 10.0 ** dec, versors=versor)), None
    return (lambda: QuaternionArray(np.zeros((0, 4)), versors=versor)), None


Fills_basic = ("finite", "zero", "nan", "inf", "string", "none-entry")


SIGNED_PERMS = [(1, 0, 0, 0), (1, 1, 0, 0), (1, 0, 0, 1), (0, 0, 1, 0), (1, 1, 1, 1), (1, -1, 1, -1)]      # elements of 2O: integer matrices


def relayout(A, how):
    """the same matrix (stack) in another memory layout / element type"""
    A = np.array(A, dtype=float)
    if how == "F-order":
        return np.asfortranarray(A)
    if how == "transposed-view":
        return np.ascontiguousarray(np.swapaxes(A, -1, -2)).swapaxes(-1, -2)      # equal content, strides of a transposed array
    if how == "strided-view":
        big = np.full(A.shape[:-2] + (6, 6), 3.25)
        big[..., ::2, ::2] = A
        return big[..., ::2, ::2]
    if how == "int-dtype":
        return np.rint(A).astype(np.int64)
    if how == "list-of-lists":
        return [[float(x) for x in row] for row in A]
    if how == "read-only":
        B = A.copy()
        B.setflags(write=False)
        return B
    raise KeyError(how)


def mat_of_class(mc, k, rng):
    u = ROTS[k % len(ROTS)]
    R = core.g_rot(u)
    if mc.endswith("[DCM-typed]"):
        D = DCM(R.copy())
        if mc.startswith("reflection"):
            return -D, None                          # det = -1, still of class DCM
        if mc.startswith("scaled-up"):
            return D * (1 + 3e-4 * (1 + k % 3)), None
        S = D.copy()
        S[k % 3, (k + 1) % 3] += 2e-4 * (1 + k % 4)   # an in-place edit of a verified object
        return S, None
    if mc.startswith("rotation["):
        how = mc[9:-1]
        if how == "int-dtype":
            u = SIGNED_PERMS[k % len(SIGNED_PERMS)]
            R = core.g_rot(u)
        return relayout(R, how), u
    if mc == "stack-of-rotations[F-order]":
        us = [ROTS[(k + i) % len(ROTS)] for i in range(2 + k % 3)]
        return relayout(np.array([core.g_rot(x) for x in us]), "F-order"), us
    if mc == "rotation":
        return R, u
    if mc == "rotation+1e-12":
        return R + rng.uniform(-1e-12, 1e-12, size=(3, 3)), u
    if mc == "reflection":
        return np.diag([1.0, 1.0, -1.0]) @ R, None
    if mc == "scaled-up":
        return R * (1 + 3e-4 * (1 + k % 3)), None
    if mc == "scaled-down":
        return R * (1 - 3e-4 * (1 + k % 3)), None
    if mc == "sheared":
        S = np.identity(3)
        S[k % 3, (k + 1) % 3] = 2e-4 * (1 + k % 4)
        return S @ R, None
    if mc == "non-orthogonal":
        M = R.copy()
        M[:, k % 3] += 3e-4 * R[:, (k + 1) % 3]
        return M, None
    if mc == "nan-entry":
        M = R.copy()
        M[k % 3, (k + 1) % 3] = np.nan
        return M, None
    if mc == "inf-entry":
        M = R.copy()
        M[k % 3, k % 3] = np.inf
        return M, None
    if mc == "zero":
        return np.zeros((3, 3)), None
    if mc == "2x2":
        return np.identity(2), None
    if mc == "3x3x3-bad":
        return np.ones((3, 3, 3)), None
    if mc == "stack-of-rotations":
        return np.array([core.g_rot(ROTS[(k + i) % len(ROTS)]) for i in range(1 + k % 4)]), [ROTS[(k + i) % len(ROTS)] for i in range(1 + k % 4)]
    if mc == "stack-one-reflection":
        A = np.array([core.g_rot(ROTS[(k + i) % len(ROTS)]) for i in range(3)])
        A[k % 3] = np.diag([1.0, -1.0, 1.0]) @ A[k % 3]
        return A, None
    raise KeyError(mc)


def build_dcm(c, k, rng):
    ctor, route, mc = c["ctor"], c["route"], c["mc"]
    if route == "matrix":
        M, u = mat_of_class(mc, k, rng)
        keep = (lambda X: X) if "[" in mc else (lambda X: X.copy())      # a copy would undo the layout under test
        if isinstance(M, list) and ctor == "QuaternionArray(DCM=)":
            M = np.array(M)
        Mf = np.array(M, dtype=float)
        if ctor == "DCM":
            return (lambda: DCM(keep(M))), ("mat", Mf if u is not None else None)
        if ctor == "Quaternion(dcm=)":
            m = ["shepperd", "itzhack"][k % 2]      # the methods defined on all of SO(3) (the grid has half-turns)
            return (lambda: Quaternion(dcm=keep(M), method=m)), ("quat-of-mat", Mf if u is not None else None)
        m = ["shepperd", "itzhack"][k % 2]      # the methods defined on all of SO(3) (the grid has half-turns)
        return (lambda: QuaternionArray(DCM=keep(M), method=m)), ("quats-of-mats", Mf if u is not None else None)
    ang = {"rotation": (0.3 + 0.4 * k, 7e-3, -3e-3)[k % 3], "nan-entry": float("nan"), "zero": 0.0, "rotation[int-dtype]": 1}[mc]
    if route in ("x=", "y=", "z="):
        return (lambda: DCM(**{route[0]: ang})), ("mat", None)
    if route == "xyz=":
        return (lambda: DCM(x=ang, y=-0.5 * ang, z=0.25 + ang)), ("mat", None)
    if route == "rpy=":
        return (lambda: DCM(rpy=[ang, 0.2, -0.7])), ("mat", None)
    if route == "euler=":
        return (lambda: DCM(euler=("zxz", [0.1, ang, -0.4]))), ("mat", None)
    if route == "q=":
        if mc == "rotation[int-dtype]":
            qi = [np.array(ROTS[k % 6], dtype=np.int64), [int(c) for c in ROTS[(k + 1) % 6]], np.array([ROTS[k % 6], ROTS[(k + 2) % 6]], dtype=np.int64)][k % 3]
            want = core.g_rot(ROTS[k % 6]) if k % 3 == 0 else (core.g_rot(ROTS[(k + 1) % 6]) if k % 3 == 1 else np.array([core.g_rot(ROTS[k % 6]), core.g_rot(ROTS[(k + 2) % 6])]))
            if k % 3 == 2:
                return (lambda: DCM().from_quaternion(qi)), ("mat", want)
            return (lambda: DCM(q=qi)), ("mat", want)
        q = {"rotation": np.array(ROTS[k % 6], dtype=float) * (1.0 + k), "nan-entry": np.array([1.0, np.nan, 0, 0]), "zero": np.zeros(4)}[mc]
        return (lambda: DCM(q=q.copy())), ("mat", core.g_rot(ROTS[k % 6]) if mc == "rotation" else None)
    if route == "axang=":
        if mc == "rotation[int-dtype]":
            axi = np.array(DIRS3[k % 5], dtype=np.int64)
            return (lambda: DCM(axang=(axi, 1))), ("mat", None)
        ax = {"rotation": np.array(DIRS3[k % 5], dtype=float), "nan-entry": np.array([1.0, np.nan, 0.0]), "zero": np.zeros(3)}[mc]
        return (lambda: DCM(axang=(ax.copy(), (0.3 + 0.4 * k, 6e-3, -2.5e-3)[k % 3]))), ("mat", None)
    raise KeyError(route)


def is_rotation(M, tol=1e-9):
    M = np.asarray(M)
    if np.iscomplexobj(M) or M.shape[-2:] != (3, 3) or not np.all(np.isfinite(M)):
        return False
    Ms = M.reshape(-1, 3, 3)
    return all(maxdiff(X @ X.T, np.identity(3)) <= tol and abs(np.linalg.det(X) - 1) <= tol for X in Ms)


def observe(c, k, rng):
    """-> (outcome, detail) with outcome in valid / rejected / wrapped-invalid / other-exception"""
    ctor = c["ctor"]
    if ctor == "Quaternion":
        fn, want = build_quat(c, k)
    elif ctor == "QuaternionArray":
        fn, want = build_array(c, k)
    else:
        fn, want = build_dcm(c, k, rng)
    try:
        obj = fn()
    except (ValueError, TypeError) as e:
        return "rejected", type(e).__name__
    except Exception as e:  # noqa
        return "other-exception", "%s: %s" % (type(e).__name__, str(e)[:120])
    a = np.asarray(obj)
    if ctor in ("Quaternion", "QuaternionArray") or (isinstance(want, tuple) and want[0] in ("quat-of-mat", "quats-of-mats")):
        if np.iscomplexobj(a) or a.dtype == object or not np.all(np.isfinite(a.astype(float))):
            return "wrapped-invalid", "non-finite or non-real components: %s" % a
        a = a.astype(float)
        versor = c.get("versor", True)
        rows = a.reshape(-1, 4)
        if versor and maxdiff(np.linalg.norm(rows, axis=1), np.ones(len(rows))) > 1e-12:
            return "wrapped-invalid", "not unit: %s" % a
        if isinstance(want, tuple) and want and want[0] in ("quat-of-mat", "quats-of-mats"):
            if want[1] is not None:
                from ..sensorworld import M_float
                Ms = np.asarray(want[1], dtype=float).reshape(-1, 3, 3)
                if len(rows) != len(Ms):
                    return "wrapped-invalid", "%d quaternions for %d matrices" % (len(rows), len(Ms))
                for r_, M_ in zip(rows, Ms):
                    if maxdiff(M_float(r_), M_) > 1e-9:
                        return "wrapped-invalid", "quaternion of another rotation: got matrix %s want %s" % (M_float(r_), M_)
            return "valid", ""
        if want is not None:
            wants = [want] if ctor == "Quaternion" else want
            for r, w in zip(rows, wants):
                d = g_unit(w)
                rr = r / np.linalg.norm(r)
                if maxdiff(rr, d) > 1e-12:
                    return "wrapped-invalid", "direction changed: got %s want %s" % (rr, d)
        return "valid", ""
    # a matrix the library BUILDS from parameters (angles, quaternion, axis-angle) is a rotation to round-off; a matrix it was GIVEN may be
    # as far from SO(3) as the acceptance table allows
    if not is_rotation(a, 1e-9 if c.get("route", "matrix") == "matrix" else 1e-13):
        return "wrapped-invalid", "not a proper rotation"
    if isinstance(want, tuple) and want[1] is not None and (a.shape != np.asarray(want[1]).shape or maxdiff(a, want[1]) > 1e-9):
        return "wrapped-invalid", "matrix changed"
    return "valid", ""


DEV_OF = {}


def replay_table(args):
    recs, seed = args
    t = Tally()
    rng = core.rng(seed, "c11")
    events = []
    for r in recs:
        c, exp = r["call"], r["expected"]
        for k in range(3):
            t.calls += 1
            out, detail = observe(c, k, rng)
            key = tuple(sorted((kk, str(v)) for kk, v in c.items()))
            t.keys.add(key)
            cname = "|".join("%s=%s" % (kk, c[kk]) for kk in ("ctor", "route", "mc", "shape", "fill", "versor") if kk in c)
            ev = dict(c)
            ev["outcome"] = out if out in ("valid", "rejected") else "valid"
            ev["dev"] = "none"
            ev.setdefault("route", "matrix")
            if out != exp:
                sig = "C11|%s|%s-instead-of-%s" % (cname, out, exp)
                dec = ("|dec=%s" % c["dec"]) if c.get("fill") == "finite" and c["ctor"] != "DCM" and exp == "valid" else ""
                t.fail(sig + dec, {"call": c, "variant": k, "outcome": out, "detail": detail, "expected": exp})
                ev["dev"] = sig + dec
            events.append(ev)
        if len(t.samples) < 3 and c["ctor"] not in [s.get("call", {}).get("ctor") for s in t.samples]:
            t.samples.append({"call": c, "expected": exp})
    t.events = events
    return t


def operations(seed, n):
    """sums/differences, random attitudes, rotated arrays, averages are again real unit quaternions"""
    t = Tally()
    r = core.rng(seed, "c11-ops")
    for i in range(n):
        p = g_unit(DIRS4[i % 6]) if i % 3 else r.normal(size=4)
        q = r.normal(size=4)
        p, q = p / np.linalg.norm(p), q / np.linalg.norm(q)
        if i % 5 == 0:
            q = -p + r.normal(size=4) * 10.0 ** -int(r.integers(3, 12))      # nearly vanishing sum
            q /= np.linalg.norm(q)
        t.keys.add(("ops", i))
        checks = [("add", lambda: np.asarray(Quaternion(p) + Quaternion(q))), ("sub", lambda: np.asarray(Quaternion(p) - Quaternion(q)))]
        if i % 4 == 0:
            N = int(r.integers(2, 6))
            Qs = r.normal(size=(N, 4))
            Qs /= np.linalg.norm(Qs, axis=1)[:, None]
            near = p + 0.05 * r.normal(size=(N, 4))
            near /= np.linalg.norm(near, axis=1)[:, None]
            checks += [("rotate_by", lambda: np.asarray(QuaternionArray(Qs).rotate_by(q.copy()))),
                       ("rotate_by[inplace]", lambda: (lambda A: (A.rotate_by(q.copy(), inplace=True), np.asarray(A.array))[1])(QuaternionArray(Qs))),
                       ("average", lambda: np.asarray(QuaternionArray(near).average())),
                       ("average[weights]", lambda: np.asarray(QuaternionArray(near).average(weights=r.uniform(0.5, 2, size=N)))),
                       # arrays of half-turn attitudes only (scalar part exactly 0, as the N-by-3 route builds them)
                       ("average[half-turns, N-by-3]", lambda: np.asarray(QuaternionArray(near[:, 1:]).average())),
                       ("average[half-turns, w=0]", lambda: np.asarray(QuaternionArray(np.c_[np.zeros(N), near[:, 1:] * 3.0]).average(weights=np.arange(1.0, N + 1)))),
                       # a single attitude averaged (one-row array; a span selecting one row), with and without a weight other than 1; spans
                       ("average[one row]", lambda: np.asarray(QuaternionArray(near[:1]).average())),
                       ("average[one row, weight]", lambda: np.asarray(QuaternionArray(near[:1]).average(weights=np.array([2.6])))),
                       ("average[span of one row, weight]", lambda: np.asarray(QuaternionArray(near).average(span=(1, 2), weights=np.array([0.32])))),
                       ("average[span]", lambda: np.asarray(QuaternionArray(near).average(span=(0, N - 1)))),
                       ("average[span, weights]", lambda: np.asarray(QuaternionArray(near).average(span=(1, N), weights=r.uniform(0.5, 2, size=N - 1)))),
                       ("average[S]", lambda: np.roll(np.asarray(QuaternionArray(np.roll(near, -1, axis=1), order="S").average(weights=r.uniform(0.5, 2, size=N))), 1)),
                       ("random_attitudes", lambda: np.asarray(random_attitudes(N))),
                       ("random_attitudes[1]", lambda: np.asarray(random_attitudes(1))),
                       ("random_attitudes[rotmat]", lambda: np.asarray(random_attitudes(N, representation="rotmat"))),
                       ("QuaternionArray(int)", lambda: np.asarray(QuaternionArray(N))),
                       ("Quaternion(random=True)", lambda: np.asarray(Quaternion(random=True)))]
        for name, fn in checks:
            t.calls += 1
            o = core.outcome(fn)
            if o[0] != "ok":
                if name in ("add", "sub") and o[1] == "ValueError" and np.linalg.norm(p + q if name == "add" else p - q) == 0:
                    continue
                t.fail("C11|%s|raises-%s" % (name, o[1]), {"p": p, "q": q, "err": o[2]})
                continue
            a = o[1]
            if "rotmat" in name:
                if not is_rotation(a):
                    t.fail("C11|%s|not-a-rotation" % name, {"got": a})
                continue
            if np.iscomplexobj(a):
                t.fail("C11|%s|complex-dtype" % name, {"p": p, "q": q, "got": a})
                continue
            rows = np.asarray(a, dtype=float).reshape(-1, 4)
            if not (np.all(np.isfinite(rows)) and maxdiff(np.linalg.norm(rows, axis=1), np.ones(len(rows))) <= 1e-12):
                t.fail("C11|%s|not-unit" % name, {"p": p, "q": q, "got": a})
    return t


def mixed_magnitudes():
    """one array whose rows have very different magnitudes (each inside the stated 1e-100..1e100 range): every row is normalised on its own"""
    t = Tally()
    dirs = [g_unit(d) for d in DIRS4[:6]]
    # Constructors!MixedStacks
    for mags in ((1e100, 1.0, 1e-100), (1e-100, 1e100), (1e-100, 1e-100, 1e100, 1e-100), (1.0, 1e-100, 1e-8), (1e30, 1e-30, 1e30, 1e-30, 1.0)):
        rows = np.array([m * dirs[i % 6] for i, m in enumerate(mags)])
        for name, mk in (("QuaternionArray", lambda: np.asarray(QuaternionArray(rows.copy()))),
                         ("QuaternionArray[order=S]", lambda: np.roll(np.asarray(QuaternionArray(np.roll(rows, -1, axis=1), order="S")), 1, axis=1)),
                         ("QuaternionArray[list]", lambda: np.asarray(QuaternionArray(rows.tolist())))):
            t.calls += 1
            t.keys.add(("mixed-magnitudes", mags, name))
            o = core.outcome(mk)
            if o[0] != "ok":
                t.fail("C11|%s|rows-of-mixed-magnitude|raises-%s" % (name, o[1]), {"magnitudes": mags, "err": o[2]})
                continue
            got = np.asarray(o[1], dtype=float)
            want = np.array([dirs[i % 6] for i in range(len(mags))])
            if got.shape != want.shape or not maxdiff(got, want) <= 1e-12:
                t.fail("C11|%s|rows-of-mixed-magnitude|rows-not-normalised-to-their-own-direction" % name, {"magnitudes": mags, "got": got, "want": want})
    return t


def run(chk):
    quick = chk.tier == "quick"
    chk.rule = ("every row of the decision table emitted by TLC (constructor x shape x fill x decade x versor flag; matrix class x "
                "route), each concretised at 3 exact directions/rotations; distinct = distinct table row; non-trivial = all "
                "(identity inputs are one direction among six)")
    chk.assume("accepted = object created AND (unit within 1e-12, real, finite, direction equal to the input's within 1e-12 / "
               "proper rotation within 1e-9); rejected = ValueError or TypeError; anything else is a violation")
    res = tlc.run_tlc("MC_Constructors", core.spec_cfg("MC_Constructors"), timeout=600)
    chk.add_tlc("Constructors[decision table]", res)
    if res.violated:
        chk.fail("C11|spec|%s" % res.violated, {"tlc": res.output[-2000:]})
    recs = res.out_records
    chk.exhaustive = True
    chunks = [(recs[i::16], chk.seed + i) for i in range(16)]
    import multiprocessing as mp
    with mp.get_context("fork").Pool(16) as pool:
        tallies = pool.map(replay_table, chunks)
    core.merge(chk, tallies)
    core.merge(chk, [operations(chk.seed, 200 if quick else 5000)])
    core.merge(chk, [mixed_magnitudes()])
    # code -> spec: the observed outcome of every call must be a Construct step of the table; outcomes that
    # are open known findings are admitted by the as-built constant Deviations (and printed as KNOWN-FINDING)
    events = [e for tl in tallies for e in tl.events]
    open_sigs = set(s for s, k in chk.known.items() if k.get("status") == "open")
    traces = []
    for i in range(0, len(events), 25):
        evs = []
        for e in events[i:i + 25]:
            e = dict(e)
            if e["dev"] != "none" and e["dev"] not in open_sigs:
                continue        # already reported as a violation above
            e.setdefault("shape", "-"), e.setdefault("fill", "-"), e.setdefault("dec", 0), e.setdefault("versor", True), e.setdefault("mc", "-")
            evs.append(e)
        if evs:
            traces.append({"events": evs})
    import json, os
    devfile = os.path.join(tlc.scratch_root(), "c11-devs.json")
    with open(devfile, "w") as f:
        json.dump(sorted(open_sigs), f)
    core.validate_traces(chk, "TraceConstructors", core.spec_cfg("TraceConstructors", DEVIATIONS="DevSet"), traces, "ctor",
                         lambda tr, i: "C11|trace-rejected|%s" % tr["events"][min(i, len(tr["events"])) - 1].get("ctor"),
                         env={"DEV_FILE": devfile})


def replay(chk, body):
    run(chk)
