"""C14 -- WMM output equals the spherical-harmonic synthesis of the shipped coefficients.

Specification: (1) spec/WmmDate.tla -- dates in tenths of a year, Epoch / Dt, calendar dates
with their rounding to the tenth grid and the ambiguity predicate; TLC checks EpochContains /
CalendarInItsEpoch exhaustively (151 grid dates + 5 844 calendar days) and emits cases.
(2) spec/WmmSynth.tla -- the DEFINITION of the Schmidt semi-normalised functions (explicit
finite sums) and the implementation's ALGORITHM (Gauss-normalised recursion + scale factors),
with the invariants AlgorithmIsDefinition / DerivativeIsColatitude checked in exact rationals
up to degree 6 at Pythagorean latitudes (incl. the poles); the degree-12 synthesis is evaluated
by the Fraction mirror of the DEFINITION operators (vf/wmm_model.py), which the harness first
checks against TLC's exact values."""
import datetime
import math
from fractions import Fraction
import numpy as np

from .. import core, tlc
from ..core import Tally
from .. import wmm_model as WM
from ahrs.utils.wmm import WMM

TOL = 1e-5   # nT (2e-10 relative: the published WGS84 polar radius 6356752.3142 m vs a(1-f) already moves Z by 1e-6 nT)
PLACES = [(48.1372, 11.5755, 0.519), (0.0, 0.0, 0.0), (0.0, 120.0, 100.0), (89.0, -121.0, 28.0), (90.0, 0.0, 0.0), (-90.0, 77.0, 3.0), (90.0, 133.0, 850.0),
          (-33.9, 180.0, 10.0), (-33.9, -180.0, 10.0), (80.0, 0.0, 0.0), (-80.0, 240.0 - 360.0, 100.0), (40.0, 93.0, -1.0), (-45.5, -60.25, 700.0), (12.5, 179.999, 0.0)]


def field(date, lat, lon, h, route="method"):
    if route == "method":
        w = WMM()
        w.magnetic_field(lat, lon, h, date=date)
    else:
        w = WMM(date=date, latitude=lat, longitude=lon, height=h)
    return np.array([w.X, w.Y, w.Z], dtype=float)


def mirror_check(recs):
    t = Tally()
    for r in recs:
        la = r["lat"]
        mu, c = Fraction(la[1], la[2]), Fraction(la[0], la[2])
        n, m = r["n"], r["m"]
        if WM.P_def(n, m, mu, c) != Fraction(*r["P"]) or WM.dP_def(n, m, mu, c) != Fraction(*r["dP"]) or WM.schmidt2(n, m) != Fraction(*r["S2"]):
            t.fail("C14|harness-mirror|legendre", {"case": r})
        t.keys.add(("mirror", n, m, tuple(la)))
    return t


def synth_cases(args):
    dates, places = args
    t = Tally()
    for tenths in dates:
        d = tenths / 10.0
        for (la, lo, h) in places:
            want = np.array(WM.synthesize(la, lo, h, tenths))
            cls = "pole" if abs(la) == 90 else ("equator" if la == 0 else ("lon180" if abs(lo) == 180 else "generic"))
            for route in ("method", "constructor"):
                t.calls += 1
                t.keys.add((tenths, la, lo, h, route))
                o = core.outcome(lambda: field(d, la, lo, h, route))
                if o[0] != "ok":
                    t.fail("C14|%s|raises-%s|%s" % (route, o[1], cls), {"date": d, "place": (la, lo, h), "err": o[2]})
                    continue
                got = o[1]
                if not np.all(np.isfinite(got)):
                    t.fail("C14|%s|not-finite|%s" % (route, cls), {"date": d, "place": (la, lo, h), "got": got})
                    continue
                diff = float(np.max(np.abs(got - want)))
                t.resid("synthesis-nT", diff)
                if not diff <= TOL:
                    comp = "XYZ"[int(np.argmax(np.abs(got - want)))]
                    t.fail("C14|%s|differs-from-synthesis|%s|%s" % (route, comp, cls), {"date": d, "place": (la, lo, h), "got": got, "want": want, "diff_nT": diff})
        # one object answering a profile: the same site at several heights in a row, then the next site (same date)
        w = WMM()
        for (la, lo, h) in places:
            cls = "pole" if abs(la) == 90 else ("equator" if la == 0 else ("lon180" if abs(lo) == 180 else "generic"))
            for h2 in (h, h + 37.5, 0.25, h):
                t.calls += 1
                t.keys.add((tenths, la, lo, h2, "profile"))
                want = np.array(WM.synthesize(la, lo, h2, tenths))
                o = core.outcome(lambda: (w.magnetic_field(la, lo, h2, date=d), np.array([w.X, w.Y, w.Z], dtype=float))[1])
                if o[0] != "ok":
                    t.fail("C14|profile|raises-%s|%s" % (o[1], cls), {"date": d, "place": (la, lo, h2), "err": o[2]})
                    w = WMM()
                    continue
                diff = float(np.max(np.abs(o[1] - want))) if np.all(np.isfinite(o[1])) else float("inf")
                t.resid("synthesis-nT", diff)
                if not diff <= TOL:
                    t.fail("C14|profile|differs-from-synthesis|%s" % cls, {"date": d, "place": (la, lo, h2), "got": o[1], "want": want, "diff_nT": diff,
                                                                          "note": "same object, previous query at the same latitude/longitude and another height"})
        if len(t.samples) < 1:
            t.samples.append({"date": d, "place": places[0], "synthesis_nT": list(WM.synthesize(*places[0], tenths))})
    return t


def date_cases(recs):
    """abstract-state determinism for dates: the answer for a calendar date equals the answer for the decimal
    date the specification maps it to (same file, same dt), unless the date is ambiguous at the tenth grid; on
    the tenth grid the field is affine in time inside an epoch (zero second differences) and only there."""
    t = Tally()
    pl = [(48.1372, 11.5755, 0.519), (-33.9, 151.2, 0.0), (0.0, 0.0, 10.0), (75.0, -40.0, 100.0)]
    cache = {}

    def at(tenths):
        if tenths not in cache:
            cache[tenths] = np.array([field(tenths / 10.0, *p) for p in pl])
        return cache[tenths]
    for r in recs:
        if r["kind"] == "cal":
            c = r["c"]
            if c["amb"] or c["t"] > 20300:
                continue
            date = datetime.date(c["y"], 1, 1) + datetime.timedelta(days=c["d"] - 1)
            t.calls += 1
            t.keys.add(("cal", c["y"], c["d"]))
            got = np.array([field(date, *p) for p in pl[:2]])
            want = np.array([WM.synthesize(p[0], p[1], p[2], c["epoch"] + c["dt"], epoch_t=c["epoch"]) for p in pl[:2]])
            if not np.max(np.abs(got - want)) <= TOL:
                # which model did it use?
                which = "wrong-model" if np.max(np.abs(got - want)) > 20 else "wrong-time-advance"
                t.fail("C14|calendar-date|%s|%s" % (which, "year-end" if c["d"] >= 364 else "mid-year"), {"date": str(date), "spec_tenths": c["t"], "got": got[0], "want": want[0]})
        else:
            c = r["c"]
            tt = c["tt"]
            if tt + 2 > 20300:
                continue
            t.calls += 1
            t.keys.add(("dec", tt))
            same = c["epoch"] == (20150 if tt + 2 < 20200 else (20200 if tt + 2 < 20250 else 20250))
            sd = at(tt) - 2 * at(tt + 1) + at(tt + 2)
            if same and not np.max(np.abs(sd)) <= 1e-7:
                t.fail("C14|decimal-date|not-affine-inside-epoch", {"tenths": tt, "second_difference_nT": float(np.max(np.abs(sd)))})
    return t


def run(chk):
    quick = chk.tier == "quick"
    chk.rule = ("(a) every grid date and the listed calendar days of 2015-2030 (TLC-emitted, ambiguity predicate applied) at 4 places; (b) degree-12 "
                "synthesis at 14 places (both poles incl. 850 km, equator/prime meridian, +-180, heights -1..850 km) x dates (quick: 6 incl. the epoch "
                "boundaries 2019.9/2020.0/2024.9/2025.0/2030.0; thorough: all 151 grid dates) x {method, constructor, height profile on one object}; (c) the mirror against TLC's exact Legendre values; distinct = "
                "distinct (date, place, route); none trivial")
    chk.assume("mirror = fractions.Fraction transcription of the WmmSynth DEFINITION operators, checked against TLC on degree <= 6; trigonometry of the "
               "longitude, sqrt of the Schmidt factors and the WGS84 geodetic->geocentric conversion in floats; tolerance 1e-5 nT")
    r1 = tlc.run_tlc("MC_WmmDate", core.spec_cfg("MC_WmmDate"), timeout=600)
    chk.add_tlc("WmmDate[151 grid dates + 5844 calendar days]", r1)
    if r1.violated:
        chk.fail("C14|spec|%s" % r1.violated, {"tlc": r1.output[-2000:]})
    r2 = tlc.run_tlc("MC_WmmSynth", core.spec_cfg("MC_WmmSynth"), timeout=600)
    chk.add_tlc("WmmSynth[degree <= 6, Pythagorean latitudes, algorithm = definition]", r2)
    if r2.violated:
        chk.fail("C14|spec|%s" % r2.violated, {"tlc": r2.output[-2000:]})
    core.merge(chk, [mirror_check(r2.out_records)])
    # thorough: every date of the tenth-of-a-year grid 2015.0 .. 2030.0 (151 dates) at all 14 places
    dates = list(range(20150, 20301)) if not quick else [20173, 20199, 20200, 20249, 20250, 20300]
    places = PLACES if not quick else PLACES[:9] + [PLACES[11]]      # incl. the place below the ellipsoid (h = -1 km)
    jobs = [([d], places) for d in dates]
    import multiprocessing as mp
    with mp.get_context("fork").Pool(16) as pool:
        core.merge(chk, pool.map(synth_cases, jobs))
    recs = r1.out_records
    if quick:
        recs = [r for r in recs if (r["kind"] == "cal" and (r["c"]["y"] in (2019, 2020, 2024, 2025) or r["c"]["d"] in (1, 365))) or (r["kind"] == "dec" and r["c"]["tt"] % 10 in (0, 8, 9) )]
    parts = [recs[i::16] for i in range(16)]
    with mp.get_context("fork").Pool(16) as pool:
        core.merge(chk, pool.map(date_cases, parts))


def replay(chk, body):
    run(chk)
