"""C02 -- every DCM->quaternion method inverts quaternion->DCM over all of SO(3).

Specification: spec/Dcm2Quat.tla, bound into AttitudeMachine as the action ToQuat(method,
dispatcher).  TLC checks MethodSound / ClosedFormIdentities on every register of
L(2) u thin families and emits, per register, the allowed signed output directions of each
method (Shepperd's tie set, the closed-form direction, Hughes' identity case, the Sarabandi
arms that fire for thresholds -1/2, 0, 1/2).  The harness feeds the exact matrix to every
method x dispatcher and requires a real, finite, unit quaternion equal to an allowed
direction."""
import math
import numpy as np

from .. import core, tlc
from ..core import Tally, maxdiff, g_unit, g_mat
from .. import dcm2quat_model as MOD
from ahrs.common.quaternion import Quaternion, QuaternionArray
from ahrs.common.dcm import DCM
from ahrs.common import orientation as ori

TOL_EXACT = 1e-12      # Shepperd, Bar-Itzhack
TOL_CLOSED = 1e-7      # Chiaverini, Hughes, Sarabandi (one sqrt of a cancelling sum)

VARIANTS = [("default", {}), ("shepperd", {}), ("chiaverini", {}), ("hughes", {}),
            ("sarabandi", {"threshold": 0.0}), ("sarabandi", {"threshold": -0.5}), ("sarabandi", {"threshold": 0.5}),
            ("itzhack", {"version": 1}), ("itzhack", {"version": 2}), ("itzhack", {"version": 3})]


def vname(m, kw):
    return m + "".join(".%s=%s" % (k, v) for k, v in sorted(kw.items()))


def fillers(k):
    """other rows for the array dispatcher: fixed generic rotations (exact)"""
    us = [(3, 1, -2, 1), (1, 2, 2, -3), (2, -1, 3, 1), (1, 1, 1, 2)]
    return [core.g_rot(us[i % 4]) for i in range(k)]


def dispatch(disp, R, m, kw):
    """returns the 4 floats (or raises)"""
    if disp.endswith("]") and not disp.startswith("QuaternionArray"):
        base, how = disp[:-1].split("[")
        Rl = np.asfortranarray(R) if how == "F-order" else np.ascontiguousarray(R.T).T      # equal content, column-major memory
        if m == "default":
            return {"function": lambda: ori.shepperd(Rl), "DCM.to_quaternion": lambda: DCM(Rl).to_quaternion(), "Quaternion(dcm=)": lambda: Quaternion(dcm=Rl)}[base]()
        if base == "function":
            return ori.itzhack(Rl, version=kw["version"]) if m == "itzhack" else (ori.sarabandi(Rl, eta=kw["threshold"]) if m == "sarabandi" else getattr(ori, m)(Rl))
        if base == "DCM.to_quaternion":
            return DCM(Rl).to_quaternion(method=m, **kw)
        return Quaternion(dcm=Rl, method=m, **kw)
    if disp.startswith("QuaternionArray.from_DCM(inplace=False)") or disp.startswith("QuaternionArray(DCM=, versors=False)"):
        n, pos = [int(x) for x in disp.split("#")[1].split("@")]
        rows = fillers(n - 1)
        rows.insert(pos, R.copy())
        mk = {} if m == "default" else dict(method=m, **kw)
        if disp.startswith("QuaternionArray.from_DCM"):
            return np.asarray(QuaternionArray().from_DCM(np.array(rows), inplace=False, **mk))[pos]
        return np.asarray(QuaternionArray(DCM=np.array(rows), versors=False, **mk))[pos]
    if disp.startswith("QuaternionArray(DCM=)[F-order]"):
        n, pos = [int(x) for x in disp.split("#")[1].split("@")]
        rows = fillers(n - 1)
        rows.insert(pos, R.copy())
        S = np.asfortranarray(np.array(rows))
        return (QuaternionArray(DCM=S) if m == "default" else QuaternionArray(DCM=S, method=m, **kw))[pos]
    if m == "default":
        # no method argument: the documented default (Shepperd) on every dispatcher
        if disp == "function":
            return ori.shepperd(R.copy())
        if disp == "DCM.to_quaternion":
            return DCM(R.copy()).to_quaternion()
        if disp == "DCM.to_q":
            return DCM(R.copy()).to_q()
        if disp == "Quaternion(dcm=)":
            return Quaternion(dcm=R.copy())
        n, pos = [int(x) for x in disp.split("#")[1].split("@")]
        rows = fillers(n - 1)
        rows.insert(pos, R.copy())
        return QuaternionArray(DCM=np.array(rows))[pos]
    if disp == "function":
        if m == "itzhack":
            return ori.itzhack(R.copy(), version=kw["version"])
        if m == "sarabandi":
            return ori.sarabandi(R.copy(), eta=kw["threshold"])
        return getattr(ori, m)(R.copy())
    if disp == "DCM.to_quaternion":
        return DCM(R.copy()).to_quaternion(method=m, **kw)
    if disp == "DCM.to_q":          # the documented synonym
        return DCM(R.copy()).to_q(method=m, **kw)
    if disp == "Quaternion(dcm=)":
        return Quaternion(dcm=R.copy(), method=m, **kw)
    if disp.startswith("QuaternionArray(DCM=)"):
        n, pos = [int(x) for x in disp.split("#")[1].split("@")]
        rows = fillers(n - 1)
        rows.insert(pos, R.copy())
        return QuaternionArray(DCM=np.array(rows), method=m, **kw)[pos]
    raise KeyError(disp)


DISPATCHERS = ["function", "DCM.to_quaternion", "Quaternion(dcm=)",
               "QuaternionArray(DCM=)#1@0", "QuaternionArray(DCM=)#2@1", "QuaternionArray(DCM=)#5@2",
               "function[F-order]", "DCM.to_quaternion[transposed-view]", "Quaternion(dcm=)[F-order]", "QuaternionArray(DCM=)[F-order]#3@1",
               "QuaternionArray.from_DCM(inplace=False)#3@2", "QuaternionArray(DCM=, versors=False)#2@0", "DCM.to_q"]


def check_case(t, rec, cls, mirror_checked=True):
    u = tuple(rec["u"])
    N = rec["N"]
    R = g_mat(rec["Mn"], N)
    w2 = u[0] * u[0]
    n2 = core.norm2(u)
    closed_ok = w2 * 4 * 10 ** 12 >= n2      # angle <= pi - 1e-6  <=>  |w|/|u| >= sin(5e-7)
    for m, kw in VARIANTS:
        if m in ("shepperd", "default"):
            allowed, tol = [g_unit(o) for o in rec["shepperd"]], TOL_EXACT
        elif m == "itzhack":
            allowed, tol = [g_unit(u), -g_unit(u)], TOL_EXACT
        elif m == "hughes":
            if not closed_ok:
                continue
            allowed, tol = [g_unit(o) for o in rec["hughes"]], TOL_CLOSED
        else:
            if not closed_ok:
                continue
            allowed, tol = [g_unit(rec["closed"])], TOL_CLOSED
        name = vname(m, kw)
        for disp in DISPATCHERS:
            t.calls += 1
            o = core.outcome(lambda: dispatch(disp, R, m, kw))
            dn = disp.split("#")[0]
            if o[0] != "ok":
                t.fail("C02|%s|%s|raises-%s|%s" % (name, dn, o[1], cls), {"u": u, "method": name, "dispatcher": disp, "err": o[2], "R": R})
                continue
            q = np.asarray(o[1])
            if np.iscomplexobj(q) or q.dtype == object:
                t.fail("C02|%s|%s|complex-dtype|%s" % (name, dn, cls), {"u": u, "method": name, "dispatcher": disp, "got": q})
                continue
            q = np.asarray(q, dtype=float)
            if q.shape != (4,) or not np.all(np.isfinite(q)):
                t.fail("C02|%s|%s|not-finite|%s" % (name, dn, cls), {"u": u, "method": name, "dispatcher": disp, "got": q})
                continue
            if not abs(np.linalg.norm(q) - 1.0) <= 1e-12:
                t.fail("C02|%s|%s|not-unit|%s" % (name, dn, cls), {"u": u, "method": name, "dispatcher": disp, "got": q})
                continue
            d = min(maxdiff(q, a) for a in allowed)
            t.resid(name, d)
            if not d <= tol:
                dd = min(maxdiff(q, s * a) for a in allowed for s in (1, -1))
                mode = "wrong-sign" if dd <= tol else ("conjugate" if min(maxdiff(q * [1, -1, -1, -1], s * a) for a in allowed for s in (1, -1)) <= tol
                                                        else ("returns-identity" if maxdiff(np.abs(q), [1, 0, 0, 0]) <= 1e-12 else "wrong-rotation"))
                t.fail("C02|%s|%s|%s|%s" % (name, dn, mode, cls),
                       {"u": u, "method": name, "dispatcher": disp, "got": q, "allowed": allowed, "R": R, "diff": d})
    t.keys.add((cls, u))


def classify(u):
    w2, n2 = u[0] * u[0], core.norm2(u)
    if w2 == 0:
        return "half-turn"
    if w2 == n2:
        return "identity"
    if w2 * 10 ** 4 >= n2 * (10 ** 4 - 1):
        return "angle<2e-2"
    if w2 * 10 ** 4 <= n2:
        return "angle>pi-2e-2"
    return "generic"


def replay_cases(recs):
    t = Tally()
    for rec in recs:
        # the harness' bigint mirror of the TLA+ operators agrees with TLC on this grid point
        mir = MOD.method_case(rec["u"])
        for k in ("Mn", "N", "closed", "hughes", "arms_neg", "arms_zero", "arms_pos"):
            if mir[k] != rec[k]:
                t.fail("C02|harness-mirror|%s" % k, {"u": rec["u"], "tlc": rec[k], "mirror": mir[k]})
        if set(map(tuple, mir["shepperd"])) != set(map(tuple, rec["shepperd"])) or sorted(mir["shep_branches"]) != sorted(rec["shep_branches"]):
            t.fail("C02|harness-mirror|shepperd", {"u": rec["u"], "tlc": rec["shepperd"], "mirror": mir["shepperd"]})
        check_case(t, rec, classify(rec["u"]))
        if len(t.samples) < 2:
            t.samples.append({"case": "grid", "u": rec["u"], "exact_matrix_numerator": rec["Mn"], "den": rec["N"],
                              "shepperd_allowed": rec["shepperd"], "closed_form_direction": rec["closed"], "sarabandi_arms(eta=0)": rec["arms_zero"]})
    return t


AXES = [(1, 0, 0), (0, 1, 0), (0, 0, 1), (1, 1, 0), (1, -1, 1), (1, 2, 2), (-2, 1, 2), (2, 3, 6)]


def thin_cases(tier):
    us = []
    ks = (10 ** 3, 10 ** 4, 10 ** 6, 10 ** 9, 10 ** 12) if tier == "quick" else tuple(10 ** e for e in range(2, 16))
    for K in ks:
        for a in AXES:
            for s in (1, -1):
                us.append((K, s * a[0], s * a[1], s * a[2]))          # angle ~ 2|a|/K
                us.append((s, K * a[0], K * a[1], K * a[2]))          # angle ~ pi - 2/(K|a|), both signs of w ("negative angles")
    return us


def replay_thin(us):
    t = Tally()
    for u in us:
        rec = MOD.method_case(u)
        check_case(t, rec, classify(u))
    if us:
        t.samples.append({"case": "thin family via bigint mirror", "u": list(us[-1]), "class": classify(us[-1])})
    return t


def M_float(q):
    """spec operator M evaluated on floats (for perturbed inputs that have no exact model value)"""
    w, x, y, z = q
    return np.array([[w * w + x * x - y * y - z * z, 2 * (x * y - w * z), 2 * (x * z + w * y)],
                     [2 * (x * y + w * z), w * w - x * x + y * y - z * z, 2 * (y * z - w * x)],
                     [2 * (x * z - w * y), 2 * (y * z + w * x), w * w - x * x - y * y + z * z]])


def relational(seed, n):
    """matrices within 1e-12 of the identity / of a half-turn / generic, built as the product of an
    exact grid rotation and an exact tiny rotation (two gamma matrices, one matmul); no exact model
    value exists, so the law checked is R(q_out) = R_in, with M evaluated in floats."""
    t = Tally()
    r = core.rng(seed, "c02-rel")
    bases = [(1, 0, 0, 0), (0, 1, 0, 0), (0, 0, 1, 0), (0, 0, 0, 1), (0, 1, 2, 2), (0, 2, 3, 6), (0, 1, 1, 0), (1, 1, 1, 1), (3, 1, -2, 1)]
    for i in range(n):
        b = bases[i % len(bases)]
        a = AXES[r.integers(len(AXES))]
        K = 10 ** int(r.integers(11, 14))
        e = (K, a[0] * int(r.integers(1, 9)), -a[1] * int(r.integers(1, 9)), a[2])
        R = core.g_rot(b) @ core.g_rot(e)
        cls = "eps-of-" + classify(b)
        t.keys.add((cls, b, e))
        for m, kw in VARIANTS:
            half = b[0] == 0
            if half and m not in ("shepperd", "itzhack"):
                continue      # closed forms are only required up to pi - 1e-6
            tol = 1e-9 if m in ("shepperd", "itzhack") else 1e-7
            name = vname(m, kw)
            for disp in ("function", "Quaternion(dcm=)", "QuaternionArray(DCM=)#2@0"):
                t.calls += 1
                o = core.outcome(lambda: dispatch(disp, R, m, kw))
                dn = disp.split("#")[0]
                if o[0] != "ok":
                    t.fail("C02|%s|%s|raises-%s|%s" % (name, dn, o[1], cls), {"base": b, "eps": e, "err": o[2]})
                    continue
                q = np.asarray(o[1])
                if np.iscomplexobj(q):
                    t.fail("C02|%s|%s|complex-dtype|%s" % (name, dn, cls), {"base": b, "eps": e, "got": q})
                    continue
                q = np.asarray(q, dtype=float)
                if not (np.all(np.isfinite(q)) and abs(np.linalg.norm(q) - 1) <= 1e-12):
                    t.fail("C02|%s|%s|not-unit|%s" % (name, dn, cls), {"base": b, "eps": e, "got": q})
                    continue
                d = maxdiff(M_float(q), R)
                t.resid("rel-" + name, d)
                if not d <= tol:
                    t.fail("C02|%s|%s|wrong-rotation|%s" % (name, dn, cls), {"base": b, "eps": e, "got": q, "R": R, "diff": d})
    return t


def option_memory():
    """a method's options belong to the call they are given to: a call WITHOUT options answers the same before and after some other
    call was given options (every dispatcher; identity, a 1e-9 rad rotation, a general rotation, a rotation 1e-6 from a half-turn)"""
    t = Tally()
    c, s_ = math.cos(1e-9), math.sin(1e-9)
    probes = [np.identity(3), np.array([[c, -s_, 0.0], [s_, c, 0.0], [0.0, 0.0, 1.0]]), core.g_rot((3, 1, -2, 1)), core.g_rot((1, 2000000, -1000000, 2000000))]
    disps = DISPATCHERS[:6] + ["QuaternionArray.from_DCM(inplace=False)#3@2"]

    def plain(disp, R, m):
        if disp == "function":
            return np.asarray(getattr(ori, m)(R.copy()), dtype=float)
        return np.asarray(dispatch(disp, R, m, {}), dtype=float)
    for m, loud in (("sarabandi", {"threshold": 3.0}), ("itzhack", {"version": 1}), ("sarabandi", {"threshold": -0.9})):
        before = {}
        for d in disps:
            for i, R in enumerate(probes):
                t.calls += 1
                before[(d, i)] = core.outcome(lambda: plain(d, R, m))
        for d in disps:           # calls WITH options, results not used
            core.outcome(lambda: dispatch(d, probes[2], m, loud))
        for d in disps:
            for i, R in enumerate(probes):
                t.calls += 1
                o = core.outcome(lambda: plain(d, R, m))
                b = before[(d, i)]
                t.keys.add(("option-memory", m, tuple(loud.items()), d, i))
                same = (o[0] == b[0]) and (np.array_equal(o[1], b[1], equal_nan=True) if o[0] == "ok" else o[1] == b[1])
                if not same:
                    t.fail("C02|%s|%s|call-without-options-answers-differently-after-a-call-with-options" % (m, d),
                           {"method": m, "options-given-to-the-other-call": loud, "probe": ["identity", "1e-9 rad", "general", "near half-turn"][i],
                            "before": b[1], "after": o[1]})
    return t


def run(chk):
    quick = chk.tier == "quick"
    chk.rule = ("one case per register u of L(2) u thin families (TLC-emitted, exact) and per thin-family member evaluated with "
                "the bigint mirror (angles down to 1e-15 from identity / down to 1e-6 from a half-turn), x 9 method variants x 6 "
                "dispatchers; plus eps-perturbed relational cases; distinct = distinct (class, u); trivial = identity register")
    chk.assume("tolerances: 1e-12 (Shepperd, Bar-Itzhack), 1e-7 (closed forms); closed forms required only for |w|/|u| >= 5e-7")
    res = tlc.run_tlc("MC_AttitudeMachine", core.spec_cfg("MC_AttitudeMachine_c02"), timeout=900)
    chk.add_tlc("AttitudeMachine[ToQuat: L(2) u thin, 7 methods x 4 dispatchers]", res)
    if res.violated:
        chk.fail("C02|spec|%s" % res.violated, {"tlc": res.output[-2000:]})
    recs = res.out_records
    res2 = tlc.run_tlc("MC_AttitudeMachine", core.spec_cfg("MC_AttitudeMachine_group"), timeout=600)
    chk.add_tlc("AttitudeMachine[2O closed machine incl. ToQuat]", res2)
    if res2.violated:
        chk.fail("C02|spec|%s" % res2.violated, {"tlc": res2.output[-2000:]})
    if quick:
        recs = [r for i, r in enumerate(sorted(recs, key=lambda r: r["u"])) if i % 2 == chk.seed % 2 or classify(r["u"]) != "generic"]
    core.merge(chk, core.pmap(replay_cases, recs))
    core.merge(chk, core.pmap(replay_thin, thin_cases(chk.tier)))
    core.merge(chk, [relational(chk.seed, 60 if quick else 1500)])
    core.merge(chk, [option_memory()])
    # behaviours of the closed machine that interleave ToQuat with products / conjugates, replayed and
    # recorded; TLC validates the recorded traces (TraceAttitude)
    from . import c01
    nb = 200 if quick else 2000
    res3 = tlc.run_tlc("MC_AttitudeMachine", core.spec_cfg("MC_AttitudeMachine_group"), simulate=nb, depth=10,
                       seed=(chk.seed + 2) % 100000, workers=1, want_behaviours=True, timeout=900)
    chk.add_tlc("AttitudeMachine[-simulate %d x depth 10]" % nb, res3)
    t, traces = c01.replay_behaviours(res3.behaviours, pid="C02")
    core.merge(chk, [t])
    c01.validate_traces(chk, traces, name="c02", pid="C02")
    chk.distinct = set(k for k in chk.distinct if not (isinstance(k, tuple) and k[0] == "identity"))


def replay(chk, body):
    c = body["case"]
    if "u" in c:
        t = Tally()
        check_case(t, MOD.method_case([int(x) for x in c["u"]]), classify([int(x) for x in c["u"]]))
        core.merge(chk, [t])
    else:
        core.merge(chk, [relational(chk.seed, 60)])
