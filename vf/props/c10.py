"""C10 -- attitude representations round-trip (Euler, axis-angle, log/exp, powers).

Specification: spec/Representations.tla.  Angles are half-angle pairs <<a, b>> (angle =
2 atan2(b, a)); TLC checks Denotes / RpyRoundTrip / AxangRoundTrip / PowerLaws /
EulerProduct on the conversion machine and emits the exact case table.  gamma needs one
atan2 per angle; expected quaternions / matrices / powers are exact rationals."""
import math
import numpy as np

from .. import core, tlc
from ..core import Tally, maxdiff, g_unit, g_mat, M_int, norm2, qmul_int
from ahrs.common.quaternion import Quaternion, QuaternionArray
from ahrs.common.dcm import DCM, rot_seq, rotation
from ahrs.common import orientation as ori

TOL = 1e-12


def ang(h):
    return 2.0 * math.atan2(h[1], h[0])


def full(c):
    return math.atan2(c[1], c[0])


def wrap(d):
    return (np.asarray(d, dtype=float) + np.pi) % (2 * np.pi) - np.pi


def elem(ax, h):
    return {"x": (h[0], h[1], 0, 0), "y": (h[0], 0, h[1], 0), "z": (h[0], 0, 0, h[1])}[ax]


def from_rpy_model(r, p, y):
    return qmul_int(qmul_int(elem("z", y), elem("y", p)), elem("x", r))


def powq(q, k):
    if k < 0:
        q = (q[0], -q[1], -q[2], -q[3])
        k = -k
    out = (1, 0, 0, 0)
    for _ in range(k):
        out = qmul_int(out, q)
    return out


def rpy_routes(a):
    a = np.array(a, dtype=float)
    yield "Quaternion(rpy=)", lambda: np.asarray(Quaternion(rpy=a.copy()), dtype=float)
    yield "Quaternion.from_rpy", lambda: np.asarray(Quaternion().from_rpy(a.copy()), dtype=float)
    yield "Quaternion.from_angles", lambda: np.asarray(Quaternion().from_angles(a.copy()), dtype=float)
    yield "QuaternionArray(rpy=)", lambda: np.asarray(QuaternionArray(rpy=np.array([a, a])), dtype=float)[1]
    yield "QuaternionArray.from_rpy", lambda: np.asarray(QuaternionArray().from_rpy(np.array([a])), dtype=float)[0]
    yield "rpy2q", lambda: np.asarray(ori.rpy2q(a.copy()), dtype=float)
    yield "rpy2q[deg]", lambda: np.asarray(ori.rpy2q(np.degrees(a), in_deg=True), dtype=float)


def ang_routes(q):
    q = np.array(q, dtype=float)
    yield "Quaternion.to_angles", lambda: np.asarray(Quaternion(q.copy()).to_angles(), dtype=float)
    yield "QuaternionArray.to_angles", lambda: np.asarray(QuaternionArray(np.array([q, q])).to_angles(), dtype=float)[0]
    yield "q2rpy", lambda: np.asarray(ori.q2rpy(q.copy()), dtype=float)
    yield "q2rpy[deg]", lambda: np.radians(np.asarray(ori.q2rpy(q.copy(), in_deg=True), dtype=float))


def do(t, sig, case, fn):
    t.calls += 1
    o = core.outcome(fn)
    if o[0] != "ok":
        t.fail("%s|raises-%s" % (sig, o[1]), dict(case, err=o[2]))
        return None
    return o[1]


def check_rpy(t, c, cls, atol=1e-10):
    r, p, y = c["r"], c["p"], c["y"]
    angles = np.array([ang(r), ang(p), ang(y)])
    wq = g_unit(c["q"])
    want = np.array([full(c["roll"]), math.asin(c["sinpitch"][0] / c["sinpitch"][1]) if cls != "thin" else ang(p), full(c["yaw"])])
    case = {"r": r, "p": p, "y": y, "angles": angles}
    for name, fn in rpy_routes(angles):
        q = do(t, "C10|%s|%s" % (name, cls), case, fn)
        if q is None:
            continue
        d = maxdiff(q, wq)
        t.resid("rpy->q", d)
        if not d <= TOL:
            t.fail("C10|%s|quaternion-differs-from-exact|%s" % (name, cls), dict(case, got=q, want=wq))
    for name, fn in ang_routes(wq):
        a = do(t, "C10|%s|%s" % (name, cls), case, fn)
        if a is None:
            continue
        d = float(np.max(np.abs(wrap(a - want))))
        t.resid("q->rpy", d)
        if not d <= atol:
            t.fail("C10|%s|angles-differ-from-exact|%s" % (name, cls), dict(case, got=a, want=want))
    # exp(log q) = q on these quaternions too (they include negative scalar parts)
    lg = do(t, "C10|logarithm|%s" % cls, case, lambda: np.asarray(Quaternion(wq.copy()).logarithm, dtype=float))
    if lg is not None and np.any(lg):
        ex = do(t, "C10|exponential|%s" % cls, case, lambda: np.asarray(Quaternion(lg, versor=False).exponential, dtype=float))
        sv = float(np.linalg.norm(wq[1:]))
        if ex is not None and not maxdiff(ex, wq) <= TOL + 4e-16 / max(sv, 1e-300):
            t.fail("C10|exp(log q)|not-q|%s" % ("w<0" if wq[0] < 0 else cls), dict(case, q=wq, got=ex))
    # composed in the implementation
    a = do(t, "C10|roundtrip|%s" % cls, case, lambda: np.asarray(Quaternion(rpy=angles.copy()).to_angles(), dtype=float))
    if a is not None and not float(np.max(np.abs(wrap(a - angles)))) <= atol:
        t.fail("C10|Quaternion(rpy=).to_angles|roundtrip|%s" % cls, dict(case, got=a))
    t.keys.add(("rpy", tuple(r), tuple(p), tuple(y)))


def skew_of(n):
    return np.array([[0, -n[2], n[1]], [n[2], 0, -n[0]], [-n[1], n[0], 0]], dtype=float)


def check_axang(t, c, cls, thin=False):
    n, ln, h = c["n"], c["len"], c["h"]
    theta = ang(h)
    axis = np.array(n, dtype=float) / ln
    wq = g_unit(c["q"])
    R = g_mat(c["Mn"], c["N"])
    case = {"n": n, "h": h, "theta": theta}
    tol_ang = 1e-9 if not thin else max(1e-9, 1e-15 / max(theta, 1e-300) ** 1)
    # axis-angle -> quaternion / matrix
    q = do(t, "C10|axang2quat|%s" % cls, case, lambda: np.asarray(ori.axang2quat(np.array(n, dtype=float), theta), dtype=float))
    if q is not None and not maxdiff(q, wq) <= TOL:
        t.fail("C10|axang2quat|quaternion-differs-from-exact|%s" % cls, dict(case, got=q, want=wq))
    q = do(t, "C10|axang2quat[deg]|%s" % cls, case, lambda: np.asarray(ori.axang2quat(np.array(n, dtype=float), math.degrees(theta), rad=False), dtype=float))
    if q is not None and not maxdiff(q, wq) <= TOL:
        t.fail("C10|axang2quat[deg]|quaternion-differs-from-exact|%s" % cls, dict(case, got=q, want=wq))
    for name, fn in (("DCM.from_axisangle", lambda: np.asarray(DCM().from_axisangle(np.array(n, dtype=float), theta), dtype=float)),
                     ("DCM.from_axang", lambda: np.asarray(DCM().from_axang(np.array(n, dtype=float), theta), dtype=float)),
                     ("DCM(axang=)", lambda: np.asarray(DCM(axang=(np.array(n, dtype=float), theta)), dtype=float))):
        Rm = do(t, "C10|%s|%s" % (name, cls), case, fn)
        if Rm is not None:
            d = maxdiff(Rm, R)
            t.resid("axang->R", d)
            if not d <= TOL:
                t.fail("C10|%s|matrix-differs-from-exact|%s" % (name, cls), dict(case, got=Rm, want=R))
    if h[0] != 0 or True:
        # quaternion -> axis-angle (strictly between 0 and pi)
        if 0 < theta < math.pi:
            for name, fn in (("Quaternion.to_axang", lambda: Quaternion(wq.copy()).to_axang()),
                             ("quat2axang", lambda: ori.quat2axang(wq.copy()))):
                o = do(t, "C10|%s|%s" % (name, cls), case, fn)
                if o is not None:
                    ax, an = np.asarray(o[0], dtype=float), float(o[1])
                    if not (maxdiff(ax, axis) <= 1e-9 and abs(an - theta) <= 1e-12 * max(1, 1)):
                        t.fail("C10|%s|axis-angle-differs|%s" % (name, cls), dict(case, got_axis=ax, got_angle=an, axis=axis))
            # the other representative of the same rotation (-q, negative scalar part): whatever (axis, angle) comes back must describe
            # the same rotation -- cos(angle/2) axis-scaled half-vector equal to +-q, the sign being common to all four components
            for name, fn in (("Quaternion(-q).to_axang", lambda: Quaternion(-wq).to_axang()),
                             ("quat2axang(-q)", lambda: ori.quat2axang(-wq))):
                o = do(t, "C10|%s|%s" % (name, cls), case, fn)
                if o is not None:
                    ax, an = np.asarray(o[0], dtype=float), float(o[1])
                    back = np.array([math.cos(an / 2.0), *(math.sin(an / 2.0) * ax)])
                    dd = min(maxdiff(back, wq), maxdiff(back, -wq))
                    t.resid("axang(-q)", dd)
                    if not dd <= 1e-9:
                        t.fail("C10|%s|axis-angle-is-another-rotation|%s" % (name, cls), dict(case, got_axis=ax, got_angle=an, axis=axis))
            # matrix -> axis-angle: arccos of the trace, conditioning 1/sin(theta)
            if 1e-4 <= theta <= math.pi - 1e-4:
                for name, fn in (("DCM.to_axisangle", lambda: DCM(R.copy()).to_axisangle()), ("DCM.to_axang", lambda: DCM(R.copy()).to_axang())):
                    o = do(t, "C10|%s|%s" % (name, cls), case, fn)
                    if o is not None:
                        ax, an = np.asarray(o[0], dtype=float), float(o[1])
                        lim = 1e-9 + 4e-16 / math.sin(theta)
                        if not (maxdiff(ax, axis) <= 1e3 * lim and abs(an - theta) <= lim):
                            t.fail("C10|%s|axis-angle-differs|%s" % (name, cls), dict(case, got_axis=ax, got_angle=an, axis=axis))
    # one object, every read-only conversion called twice: same answers, object unchanged
    if 0 < theta < math.pi:
        obj = Quaternion(wq.copy())
        was = np.array(obj, dtype=float)
        first = {}
        for rnd in (0, 1):
            for name in ("to_axang", "to_angles", "to_DCM", "logarithm", "to_array"):
                t.calls += 1
                m_ = getattr(obj, name)
                val = m_() if callable(m_) else m_
                flat = np.concatenate([np.atleast_1d(np.asarray(x, dtype=float)).ravel() for x in (val if isinstance(val, tuple) else (val,))])
                if rnd == 0:
                    first[name] = flat
                elif not np.array_equal(flat, first[name], equal_nan=True):
                    t.fail("C10|Quaternion.%s|second-call-on-the-same-object-differs|%s" % (name, cls), dict(case, first=first[name], second=flat))
        if not np.array_equal(np.asarray(obj, dtype=float), was):
            t.fail("C10|Quaternion|object-changed-by-read-only-conversions|%s" % cls, dict(case, now=np.asarray(obj), was=was))
    # logarithm / exponential (half-angle = atan2(b, a))
    if 0 < theta < math.pi:
        half = math.atan2(h[1], h[0])
        lg = do(t, "C10|logarithm|%s" % cls, case, lambda: np.asarray(Quaternion(wq.copy()).logarithm, dtype=float))
        if lg is not None:
            wl = np.r_[0.0, half * axis]
            d = maxdiff(lg, wl)
            t.resid("log", d)
            if not d <= max(TOL, 4e-16 / max(math.sin(half), 1e-300)):
                t.fail("C10|logarithm|differs-from-exact|%s" % cls, dict(case, got=lg, want=wl))
            # arccos(w) conditioning: the logarithm (and what is built on it) is accurate to eps/sin(half)
            cond = TOL + 4e-16 / max(math.sin(half), 1e-300)
            ex = do(t, "C10|exponential|%s" % cls, case, lambda: (np.asarray(Quaternion(np.asarray(lg, dtype=float), versor=False).exponential, dtype=float)
                                                                  if np.any(lg) else np.array([1.0, 0, 0, 0])))
            if ex is not None and not maxdiff(ex, wq) <= cond:
                t.fail("C10|exp(log q)|not-q|%s" % cls, dict(case, got=ex, want=wq))
        # real powers: rotation about the same axis by a times the angle
        exps = [-3, -2, -1, 0, 1, 2, 3, 0.5, -0.5, 1.5, 2.25, -2.75, 0.1, 1e-3]
        got = {}
        for a in exps:
            o = do(t, "C10|__pow__|%s" % cls, case, lambda: np.asarray(Quaternion(wq.copy()) ** a, dtype=float))
            if o is None:
                continue
            got[a] = o
            if a == int(a) and not thin:
                want = g_unit(powq(tuple(c["q"]), int(a)))
            else:
                want = np.r_[math.cos(a * half), math.sin(a * half) * axis]
            if not maxdiff(o, want) <= 1e-11 + (1 + abs(a)) * 4e-16 / max(math.sin(half), 1e-300):
                cl = "zero" if a == 0 else ("one" if a == 1 else ("integer" if a == int(a) else "real"))
                t.fail("C10|__pow__|exponent-%s|not-the-rotation-by-a-times-angle|%s" % (cl, cls), dict(case, a=a, got=o, want=want))
        if 0.5 in got and 1.5 in got and 2 in got:
            pq = Quaternion(got[0.5]).product(got[1.5])
            if not maxdiff(pq, got[2]) <= 1e-11 + 16e-16 / max(math.sin(half), 1e-300):
                t.fail("C10|__pow__|q^a q^b != q^(a+b)|%s" % cls, dict(case, got=pq, want=got[2]))
    # matrix logarithm: skew-symmetric, Frobenius norm sqrt(2) theta
    if theta < math.pi - 1e-6:
        L = do(t, "C10|DCM.log|%s" % cls, case, lambda: np.asarray(DCM(R.copy()).log, dtype=float))
        if L is not None:
            sk = maxdiff(L, -L.T)
            fro = float(np.linalg.norm(L))
            # theta/(2 sin theta) with theta = arccos((tr-1)/2): conditioning eps/sin^2(theta) towards pi
            lim = 1e-9 + 4e-15 / max(math.sin(theta), 1e-300) ** 2 if theta > 1 else 1e-9 + 1e-15 / max(math.sin(theta), 1e-300)
            t.resid("dcm-log", abs(fro - math.sqrt(2) * theta) / max(theta, 1e-300) if theta > 0 else 0.0)
            if not (sk <= 1e-12 and abs(fro - math.sqrt(2) * theta) <= lim * max(1.0, 1.0)):
                ident = "returns-zero" if fro == 0 else "wrong-magnitude"
                t.fail("C10|DCM.log|%s|%s" % (ident, cls), dict(case, fro=fro, want=math.sqrt(2) * theta, skew_residual=sk))
    t.keys.add(("axang", tuple(n), tuple(h)))


def check_euler(t, c, cls):
    axes, hs = c["axes"], c["hs"]
    angs = [ang(h) for h in hs]
    R = g_mat(c["Mn"], c["N"])
    case = {"axes": axes, "hs": hs, "angles": angs}
    seq = "".join(axes)
    routes = [("rot_seq[str]", lambda: rot_seq(seq, list(angs))),
              ("rot_seq[list]", lambda: rot_seq(list(axes), list(angs))),
              ("rot_seq[deg]", lambda: rot_seq(seq.upper(), [math.degrees(a) for a in angs], degrees=True)),
              ("DCM(euler=)", lambda: DCM(euler=(seq, list(angs))))]
    if len(axes) == 1:
        routes.append(("rotation", lambda: rotation(axes[0], angs[0])))
        routes.append(("DCM(%s=)" % axes[0], lambda: DCM(**{axes[0]: angs[0]})))
        routes.append(("DCM(%s=, degrees=True)" % axes[0], lambda: DCM(**{axes[0]: math.degrees(angs[0]), "degrees": True})))
        routes.append(("rotation[deg]", lambda: rotation(axes[0], math.degrees(angs[0]), degrees=True)))
    if seq == "zyx":
        routes.append(("DCM(rpy=)", lambda: DCM(rpy=list(angs))))
    if seq == "xyz":
        routes.append(("DCM(x=,y=,z=)", lambda: DCM(x=angs[0], y=angs[1], z=angs[2])))
        routes.append(("DCM(x=,y=,z=, degrees=True)", lambda: DCM(x=math.degrees(angs[0]), y=math.degrees(angs[1]), z=math.degrees(angs[2]), degrees=True)))
    for name, fn in routes:
        Rm = do(t, "C10|%s|%s" % (name, cls), case, fn)
        if Rm is None:
            continue
        if isinstance(Rm, np.ndarray) and type(Rm) is np.ndarray and Rm.flags.writeable and name.startswith(("rot_seq", "rotation")):
            # the caller owns the matrix it was given: it is used and then overwritten (a later call must not see that)
            got = Rm.copy()
            Rm[...] = np.array([[0.0, 0.6, 0.8], [1.0, 0.0, 0.0], [0.0, 0.8, -0.6]])
            Rm = got
        d = maxdiff(np.asarray(Rm, dtype=float), R)
        t.resid("euler->R", d)
        if not d <= TOL:
            t.fail("C10|%s|matrix-not-ordered-product|%s" % (name, cls), dict(case, got=np.asarray(Rm), want=R))
    if len(axes) == 1 and not getattr(t, "null_rotations_scribbled", False):
        # null elementary rotations, handed out and then overwritten by the caller, once per process: sequences with a zero angle
        # are built from them afterwards (every sequence case below that contains the half-angle pair (1, 0))
        t.null_rotations_scribbled = True
        for ax in "xyz":
            for Z in (rotation(ax, 0.0), rotation(ax, 360.0, degrees=True), rot_seq(ax, [0.0])):
                if isinstance(Z, np.ndarray) and Z.flags.writeable:
                    Z[...] = np.array([[0.0, 0.6, 0.8], [1.0, 0.0, 0.0], [0.0, 0.8, -0.6]])
    t.keys.add(("euler", seq, tuple(map(tuple, hs))))


def replay_cases(recs):
    t = Tally()
    for c in recs:
        k = c["kind"]
        if k == "rpy":
            # mirror check
            if list(from_rpy_model(c["r"], c["p"], c["y"])) != list(c["q"]):
                t.fail("C10|harness-mirror|FromRpy", {"case": c})
            check_rpy(t, c, "grid")
        elif k == "axang":
            if c["pows"] and [list(powq(tuple(c["q"]), k - 3)) for k in range(7)] != [list(x) for x in c["pows"]]:
                t.fail("C10|harness-mirror|PowQ", {"case": c["q"]})
            check_axang(t, c, "grid")
        else:
            check_euler(t, c, "grid")
        if len(t.samples) < 3 and (k, ) not in [tuple([s.get("kind")]) for s in t.samples]:
            t.samples.append({kk: c[kk] for kk in c if kk not in ("pows",)})
    return t


def thin(tier):
    """members of the same families whose squares exceed 32 bits, evaluated with the bigint mirror"""
    t = Tally()
    Ks = [10 ** 2, 10 ** 3, 10 ** 4, 10 ** 6, 10 ** 7, 10 ** 8, 10 ** 10] if tier == "quick" else [10 ** e for e in range(2, 13)]
    axes = [((1, 0, 0), 1), ((0, 0, -1), 1), ((1, 2, 2), 3), ((2, 3, 6), 7), ((0, 3, -4), 5)]
    for K in Ks:
        for n, ln in axes:
            for h in ((K, 1), (1, K)):
                if h == (1, K) and K > 10 ** 6:
                    continue
                q = (h[0] * ln, h[1] * n[0], h[1] * n[1], h[1] * n[2])
                check_axang(t, {"n": list(n), "len": ln, "h": list(h), "q": list(q), "Mn": M_int(q), "N": norm2(q), "pows": []},
                            "angle~%.0e" % (2.0 / K) if h[0] > 1 else "pi-angle~%.0e" % (2.0 / K), thin=True)
        # tiny and near-90-degree Euler / rpy angles
        for ax in "xyz":
            hs = [[K, 1]]
            q = elem(ax, hs[0])
            check_euler(t, {"axes": [ax], "hs": hs, "Mn": M_int(q), "N": norm2(q)}, "angle~%.0e" % (2.0 / K))
        if K <= 10 ** 6:
            r, p, y = [3, 1], [K, K - 1], [K, -1]
            q = from_rpy_model(r, p, y)
            dbl = lambda h: [h[0] * h[0] - h[1] * h[1], 2 * h[0] * h[1]]
            check_rpy(t, {"r": r, "p": p, "y": y, "q": list(q), "roll": dbl(r), "yaw": dbl(y),
                          "sinpitch": [dbl(p)[1], p[0] * p[0] + p[1] * p[1]]}, "thin", atol=1e-7)
    t.samples.append({"case": "thin via bigint mirror", "K": Ks[-1]})
    return t


def run(chk):
    quick = chk.tier == "quick"
    chk.rule = ("cases emitted by TLC from Representations (rpy triples of half-angle pairs, axis-angle about integer-length axes, "
                "all 39 Euler sequences x angle tuples) plus thin members via the bigint mirror; every case through every route; "
                "distinct = distinct origin description; trivial = none counted separately")
    chk.assume("gamma: angle = 2 atan2(b, a); expected values exact rationals; tolerances 1e-12 algebraic, 1e-10 angles, "
               "arccos-based recoveries 1e-9 + 4e-16/sin(theta)")
    res = tlc.run_tlc("MC_Representations", core.spec_cfg("MC_Representations"), timeout=900)
    chk.add_tlc("Representations[conversion machine]", res)
    if res.violated:
        chk.fail("C10|spec|%s" % res.violated, {"tlc": res.output[-2000:]})
    recs = res.out_records
    if quick:
        recs = [r for i, r in enumerate(sorted(recs, key=lambda r: core.json.dumps(r, sort_keys=True))) if r["kind"] == "axang" or i % 4 == chk.seed % 4]
    core.merge(chk, core.pmap(replay_cases, recs))
    core.merge(chk, [thin(chk.tier)])


def replay(chk, body):
    run(chk)
