"""C01 -- quaternions and rotation matrices are one rotation group.

Specification: spec/AttitudeMachine.tla (+ MC_AttitudeMachine, TraceAttitude).
TLC (i) model-checks Faithful / ProperRot / RotateLaw / PointLaws on the closed machine
over 2O with every route, on all (register, operand) pairs of the quick grid and thin
families, and two steps deep over L(2) in the thorough tier; (ii) emits the exact case
table (p, v, p*v, v*p, M(p), Norm2(p)); (iii) generates behaviours (-simulate) that are
replayed into the real objects; (iv) validates traces recorded from the real objects.
"""
import os
import json
import numpy as np

from .. import core, tlc
from ..core import Tally, g_unit, g_mat, maxdiff, M_int, norm2
from .. import attitude as A
from .. import dcm2quat_model as MOD

TOL = 1e-12
# (all finite vectors: also the null vector and magnitudes whose squares overflow / underflow)
VECS = [(1, 0, 0), (0, 1, 0), (0, 0, 1), (1, -2, 2), (-3, 1, 2), (0, 0, 0), (1e160, -2e160, 2e160), (3e-170, 1e-170, -2e-170)]


def cfg(name):
    with open(os.path.join(tlc.SPEC_DIR, name + ".cfg")) as f:
        return f.read()


# ------------------------------------------------------------------ pair cases
def replay_pairs(recs):
    t = Tally()
    for r in recs:
        p, v = tuple(r["p"]), tuple(r["v"])
        fp, fv = g_unit(p), g_unit(v)
        Rp = g_mat(r["Mp"], r["Np"])
        key = ("pair", p, v)
        t.keys.add(key)
        # mirror check: the harness' own evaluator of the spec operator M agrees with TLC
        if tuple(map(tuple, r["Mp"])) != M_int(p) or r["Np"] != norm2(p):
            t.fail("C01|harness-mirror|M_int", {"p": p})
        # 0. one live array, results held by the caller across an in-place product: the matrices the array gave BEFORE (still in the caller's
        # hands) and the ones it gives AFTER rotate_by(p, inplace=True) are related by R(p q_i) = R(p) R(q_i); same for the conjugates
        if (sum(abs(int(c)) for c in p + v) % 4) == 0:
            from ahrs.common.quaternion import QuaternionArray as _QA

            def live():
                arr = _QA(np.array([fv, g_unit((2, -1, 3, 1)), -fv]))
                R0 = arr.to_DCM()
                c0 = arr.conjugate()
                arr.rotate_by(fp.copy(), inplace=True)
                return np.asarray(R0), np.asarray(arr.to_DCM()), np.asarray(c0), np.asarray(arr.conjugate())
            t.calls += 1
            o = core.outcome(live)
            if o[0] != "ok":
                t.fail("C01|QuaternionArray[live].rotate_by(inplace)|raises-%s" % o[1], {"p": p, "v": v, "err": o[2]})
            else:
                R0, R1, c0, c1 = o[1]
                if not all(maxdiff(R1[i], Rp @ R0[i]) <= 1e-12 for i in range(3)):
                    t.fail("C01|QuaternionArray[live].to_DCM|matrices-before-and-after-an-in-place-product-are-not-related-by-R(p)",
                           {"p": p, "v": v, "before": R0, "after": R1})
                cp = fp * np.array([1.0, -1.0, -1.0, -1.0])
                if not all(maxdiff(c1[i], A.mul_route("q_prod", c0[i], cp)) <= 1e-12 for i in range(3)):
                    t.fail("C01|QuaternionArray[live].conjugate|conjugates-before-and-after-an-in-place-product-are-not-related-by-conj(p)",
                           {"p": p, "v": v, "before": c0, "after": c1})
        # 1. every conversion route gives the exact matrix; proper rotation
        mats = {}
        for route in A.DCM_ROUTES:
            t.calls += 1
            o = core.outcome(lambda: A.dcm_route(route, fp))
            if o[0] != "ok":
                t.fail("C01|%s|raises-%s" % (route, o[1]), {"p": p, "route": route, "err": o[2]})
                continue
            Rm = o[1]
            mats[route] = Rm
            d = maxdiff(Rm, Rp)
            t.resid("matrix", d)
            if not d <= TOL:
                t.fail("C01|%s|matrix-differs-from-exact" % route,
                       {"p": p, "route": route, "got": Rm, "want": Rp, "diff": d})
            # q and -q give the same matrix
            Rn = A.dcm_route(route, -fp)
            t.calls += 1
            if not maxdiff(Rn, Rp) <= TOL:
                t.fail("C01|%s|neg-q-differs" % route, {"p": p, "route": route, "got": Rn, "want": Rp})
            # conjugate gives the transpose
            Rc = A.dcm_route(route, A.conj_route("conjugate", fp))
            t.calls += 2
            if not maxdiff(Rc, Rp.T) <= TOL:
                t.fail("C01|%s|conj-not-transpose" % route, {"p": p, "route": route, "got": Rc, "want": Rp.T})
            dd = abs(np.linalg.det(Rm) - 1.0)
            oo = maxdiff(Rm @ Rm.T, np.identity(3))
            if not (dd <= TOL and oo <= TOL):
                t.fail("C01|%s|not-proper-rotation" % route, {"p": p, "route": route, "det-1": dd, "RRt-I": oo})
        # 2. products through every route equal the exact product (same ray, same sign)
        want_pv = g_unit(r["pv"])
        want_vp = g_unit(r["vp"])
        for route in A.MUL_ROUTES:
            for (a, b, want, nm) in ((fp, fv, want_pv, "pv"), (fv, fp, want_vp, "vp")):
                t.calls += 1
                o = core.outcome(lambda: A.mul_route(route, a, b))
                if o[0] != "ok":
                    t.fail("C01|%s|raises-%s" % (route, o[1]), {"p": p, "v": v, "route": route, "err": o[2]})
                    continue
                d = maxdiff(o[1], want)
                t.resid("product", d)
                if not d <= TOL:
                    t.fail("C01|%s|product-differs-from-exact" % route,
                           {"p": p, "v": v, "route": route, "which": nm, "got": o[1], "want": want})
        # 3. homomorphism inside the implementation: R(p*v) = R(p) R(v), each route
        pv_impl = A.mul_route("product", fp, fv)
        for route in A.DCM_ROUTES:
            if route not in mats:
                continue
            t.calls += 2
            lhs = A.dcm_route(route, pv_impl)
            rhs = mats[route] @ A.dcm_route(route, fv)
            d = maxdiff(lhs, rhs)
            t.resid("homomorphism", d)
            if not d <= TOL:
                t.fail("C01|%s|homomorphism" % route, {"p": p, "v": v, "route": route, "lhs": lhs, "rhs": rhs})
        # 4. rotation of vectors through every route
        for vec in VECS:
            wv = Rp @ np.array(vec, dtype=float)
            wi = Rp.T @ np.array(vec, dtype=float)
            for route in A.ROT_ROUTES:
                t.calls += 1
                o = core.outcome(lambda: A.rot_route(route, fp, vec))
                if o[0] != "ok":
                    t.fail("C01|%s|raises-%s" % (route, o[1]), {"p": p, "vec": vec, "err": o[2]})
                    continue
                got, inverse = o[1]
                vmax = max(abs(float(c)) for c in vec)
                d = maxdiff(got, wi if inverse else wv) / (vmax if vmax > 0 else 1.0)      # relative to the size of the vector
                t.resid("rotate", d)
                if not d <= 4 * TOL:
                    t.fail("C01|%s|rotated-vector-differs" % route,
                           {"p": p, "vec": vec, "route": route, "got": got, "want": wi if inverse else wv})
        if len(t.samples) < 2:
            t.samples.append({"case": "pair", "p": p, "v": v, "exact_pv": r["pv"], "exact_M": r["Mp"], "den": r["Np"]})
    return t


# ------------------------------------------------------- behaviours (spec -> code)
def alpha_group(qf, tol=1e-9):
    """float quaternion -> the element of 2O (primitive integer vector) it is, or None"""
    qf = np.asarray(qf, dtype=float)
    best = None
    for s in (1.0, np.sqrt(2.0), 2.0):
        c = qf * s
        r = np.rint(c)
        if np.max(np.abs(c - r)) < tol and np.max(np.abs(r)) <= 1 and np.any(r != 0):
            best = tuple(int(x) for x in r)
            break
    return best


def alpha_mat(Rf, tol=1e-9):
    r = np.rint(Rf)
    if np.max(np.abs(Rf - r)) < tol:
        return [[int(x) for x in row] for row in r]
    return None


def replay_behaviours(behs, pid="C01"):
    """Step the real objects through specification behaviours; after every action the
    real registers must equal the specification's.  Also returns the recorded traces
    (abstracted observations) for trace validation by TLC."""
    t = Tally()
    traces = []
    for b in behs:
        st = b[0]["state"]
        q = g_unit(st["q"])
        Rm = A.dcm_route("Quaternion.to_DCM", q)
        events = []
        ok = True
        acts = []
        flip = 1.0
        prev_q = tuple(st["q"])
        for step in b[1:]:
            act, args, st = step["action"], step["args"], step["state"]
            acts.append((act,) + tuple(a if isinstance(a, str) else tuple(a) for a in args))
            ev = {"act": act, "route": args[0] if args else "none"}
            try:
                if act == "MulRight":
                    v = g_unit(args[1])
                    q = A.mul_route(args[0], q, v)
                    Rm = Rm @ A.dcm_route("DCM(q=)", v)
                    ev["v"] = list(args[1])
                elif act == "MulLeft":
                    v = g_unit(args[1])
                    q = A.mul_route(args[0], v, q)
                    Rm = A.dcm_route("DCM(q=)", v) @ Rm
                    ev["v"] = list(args[1])
                elif act == "Conjugate":
                    q = A.conj_route(args[0], q)
                    Rm = Rm.T
                elif act == "Negate":
                    q = -q
                elif act == "Convert":
                    Rc = A.dcm_route(args[0], q)
                    d = maxdiff(Rc, Rm)
                    if not d <= 1e-11:
                        t.fail(pid + "|%s|behaviour-matrix-register-differs" % args[0],
                               {"behaviour": acts, "got": Rc, "register": Rm})
                        ok = False
                    Rm = Rc
                elif act == "ToQuat":
                    from . import c02
                    m = args[0]
                    mm, kw = (("itzhack", {"version": int(m[-1])}) if m.startswith("itzhack") else
                              (("sarabandi", {"threshold": 0.0}) if m == "sarabandi" else (m, {})))
                    disp = args[1] if not args[1].startswith("QuaternionArray") else args[1] + "#2@1"
                    qn = np.asarray(c02.dispatch(disp, Rm, mm, kw))
                    if np.iscomplexobj(qn):
                        raise TypeError("complex quaternion from %s" % m)
                    q = np.asarray(qn, dtype=float)
                    ev["route"] = m
                    ev["disp"] = args[1]
                    # ToQuat is nondeterministic in the specification (Shepperd ties, eigen-solver
                    # sign): the code may take another allowed output than the successor TLC chose;
                    # all later actions commute with negation, so the replay continues with the sign
                    rec = MOD.method_case(prev_q)
                    if m == "shepperd":
                        allowed = [g_unit(o) for o in rec["shepperd"]]
                    elif m.startswith("itzhack"):
                        allowed = [g_unit(prev_q), -g_unit(prev_q)]
                    elif m == "hughes":
                        allowed = [g_unit(o) for o in rec["hughes"]]
                    else:
                        allowed = [g_unit(rec["closed"])]
                    if not min(maxdiff(q, a) for a in allowed) <= 1e-9:
                        t.fail(pid + "|%s|behaviour-toquat-not-allowed" % m, {"behaviour": acts, "got": q, "allowed": allowed})
                        ok = False
                        break
                    flip = 1.0 if maxdiff(q, g_unit(st["q"])) <= maxdiff(q, -g_unit(st["q"])) else -1.0
                elif act == "Rotate":
                    got, inv = A.rot_route(args[0], q, args[1])
                    want = (Rm.T if inv else Rm) @ np.array(args[1], dtype=float)
                    if not maxdiff(got, want) <= 1e-11:
                        t.fail(pid + "|%s|behaviour-rotated-vector" % args[0], {"behaviour": acts, "got": got, "want": want})
                        ok = False
                    ev["v"] = list(args[1])
                    # log the observation as integers: out/outden with outden = 1 (2O maps
                    # integer vectors to integer vectors); the inverse route logs R^T v
                    o = np.rint(got)
                    if inv:
                        o = np.rint(Rm @ (Rm @ got)) if False else np.rint(Rm @ np.array(args[1], dtype=float))
                    ev["out"] = [int(x) for x in o]
                    ev["outden"] = 1
                else:
                    raise KeyError(act)
            except Exception as e:  # noqa
                t.fail(pid + "|%s|raises-%s" % (args[0] if args else act, type(e).__name__), {"behaviour": acts, "err": str(e)[:200]})
                ok = False
                break
            t.calls += 1
            # compare with the specification state
            wq = flip * g_unit(st["q"])
            prev_q = tuple(st["q"])
            wR = g_mat(st["R"][0], st["R"][1])
            dq, dR = maxdiff(q, wq), maxdiff(Rm, wR)
            t.resid("behaviour-q", dq)
            t.resid("behaviour-R", dR)
            if not (dq <= 1e-11 and dR <= 1e-11):
                t.fail(pid + "|%s|behaviour-state-differs" % (args[0] if args else act),
                       {"behaviour": acts, "q": q, "want_q": wq, "R": Rm, "want_R": wR})
                ok = False
                break
            aq, aR = alpha_group(q), alpha_mat(Rm)
            if aq is None or aR is None:
                ok = False
                break
            ev["q"] = list(aq)
            ev["R"] = aR
            ev["den"] = 1
            events.append(ev)
        t.keys.add(("behaviour", tuple(acts)))
        if ok and events:
            traces.append({"start": list(b[0]["state"]["q"]), "events": events})
        if len(t.samples) < 1 and acts:
            t.samples.append({"case": "behaviour", "start": b[0]["state"]["q"], "actions": acts[:6]})
    return t, traces


def validate_traces(chk, traces, name="trace", pid="C01"):
    """TLC decides whether the recorded implementation traces are behaviours of the spec."""
    if not traces:
        return
    path = os.path.join(tlc.scratch_root(), "%s-%d.ndjson" % (name, len(traces)))
    with open(path, "w") as f:
        for tr in traces:
            f.write(json.dumps(tr) + "\n")
    res = tlc.run_tlc("TraceAttitude", cfg("TraceAttitude"), env={"TRACE_FILE": path}, workers=1, timeout=600)
    chk.add_tlc("TraceAttitude[%s]" % name, res)
    os.remove(path)
    if res.violated is None and res.ok:
        chk.traces += len(traces)
        return
    rej = [ln for ln in res.printed if "REJECTED" in ln]
    for ln in rej[:5]:
        val = tlc.parse_value(ln)
        tr = traces[val[1] - 1]
        chk.fail(pid + "|trace-rejected|%s" % tr["events"][min(val[2], len(tr["events"])) - 1]["route"],
                 {"trace": tr, "first_unmatched_event": val[2]})
    if not rej:
        chk.fail(pid + "|trace-spec|%s" % res.violated, {"tlc": res.output[-1500:]})
    chk.traces += len(traces) - len(rej)


# ------------------------------------------------------------ relational classes
def relational(seed, n):
    """Inputs the 32-bit exact domain cannot hold (denormal components, 1e-12
    perturbations, extended thin families evaluated with the harness' bigint mirror of the
    spec operator M): the laws must hold between implementation outputs / against the
    mirror."""
    t = Tally()
    r = core.rng(seed, "c01-rel")
    cases = []
    axes = [(1, 0, 0), (0, 1, 0), (0, 0, 1), (1, 1, 0), (1, -1, 1), (1, 2, 2), (-2, 1, 2), (2, 3, 6)]
    for K in (10 ** 3, 10 ** 4, 10 ** 6, 10 ** 9, 10 ** 12):
        for a in axes:
            cases.append(("near-identity", (K, a[0], a[1], a[2])))
            cases.append(("near-half-turn", (1, K * a[0], K * a[1], K * a[2])))
            cases.append(("near-identity-neg", (-K, a[0], a[1], a[2])))
    for kind, u in cases:
        fq = g_unit(u)
        Rw = g_mat(M_int(u), norm2(u))
        t.keys.add((kind, u))
        for route in A.DCM_ROUTES:
            t.calls += 1
            Rm = A.dcm_route(route, fq)
            d = maxdiff(Rm, Rw)
            t.resid("thin-matrix", d)
            if not d <= TOL:
                t.fail("C01|%s|matrix-differs-from-exact|%s" % (route, kind), {"u": u, "got": Rm, "want": Rw})
    t.samples.append({"case": "relational/mirror", "u": cases[-1][1], "class": cases[-1][0]})
    # float-only classes: laws between outputs
    for i in range(n):
        kind = ["denormal", "pure", "real", "eps", "antipodal", "generic"][i % 6]
        p = r.normal(size=4)
        q = r.normal(size=4)
        if kind == "denormal":
            p[r.integers(4)] = 5e-324 * r.integers(1, 1000)
            q[r.integers(4)] = 10.0 ** -r.integers(300, 320)
        elif kind == "pure":
            p[0] = 0.0
        elif kind == "real":
            p = np.array([r.choice([-1.0, 1.0]), 0, 0, 0]) + 0.0
            if i % 12 >= 6:
                p = p + np.r_[0, r.normal(size=3) * 1e-12]
        elif kind == "eps":
            q = p + r.normal(size=4) * 1e-12
        elif kind == "antipodal":
            q = -p + r.normal(size=4) * 1e-9
        p = p / np.linalg.norm(p)
        q = q / np.linalg.norm(q)
        t.keys.add((kind, i))
        pq = A.mul_route("product", p, q)
        ref = A.dcm_route("Quaternion.to_DCM", p)
        for route in A.DCM_ROUTES:
            t.calls += 3
            Rp = A.dcm_route(route, p)
            Rq = A.dcm_route(route, q)
            Rpq = A.dcm_route(route, pq)
            checks = {
                "routes-disagree": maxdiff(Rp, ref),
                "homomorphism": maxdiff(Rpq, Rp @ Rq),
                "not-proper-rotation": max(maxdiff(Rp @ Rp.T, np.identity(3)), abs(np.linalg.det(Rp) - 1)),
                "neg-q-differs": maxdiff(A.dcm_route(route, -p), Rp),
                "conj-not-transpose": maxdiff(A.dcm_route(route, A.conj_route("q_conj", p)), Rp.T),
            }
            for nm, d in checks.items():
                t.resid("rel-" + nm, d)
                if not d <= 4 * TOL:
                    t.fail("C01|%s|%s|%s" % (route, nm, kind), {"p": p, "q": q, "diff": d})
        for route in A.MUL_ROUTES:
            t.calls += 1
            d = maxdiff(A.mul_route(route, p, q), pq)
            if not d <= TOL:
                t.fail("C01|%s|product-routes-disagree|%s" % (route, kind), {"p": p, "q": q, "diff": d})
        v = r.normal(size=3) * 10.0 ** r.integers(-3, 4)
        for route in A.ROT_ROUTES:
            t.calls += 1
            got, inv = A.rot_route(route, p, v)
            want = (ref.T if inv else ref) @ v
            d = maxdiff(got, want) / max(1.0, np.linalg.norm(v))
            if not d <= 4 * TOL:
                t.fail("C01|%s|rotated-vector-differs|%s" % (route, kind), {"p": p, "v": v, "got": got, "want": want})
    return t


def run(chk):
    quick = chk.tier == "quick"
    chk.rule = ("cases = (register p, operand v) pairs emitted by TLC from the exact grid "
                "(L(1) u 2O u thin families; L(2) in thorough), TLC -simulate behaviours over the "
                "closed 2O machine with every route, recorded traces, and float-only relational "
                "classes; distinct = distinct (p, v) / behaviour / relational case; non-trivial = "
                "all (every case exercises >= 9 conversion and 7 product routes)")
    chk.assume("gamma: one correctly rounded division/sqrt per component; TLC 1.8; numpy matmul/det in validity checks")
    chk.assume("tolerance 1e-12 on unit-scale results (unchanged tree: <= 2e-15)")
    # (i) exhaustive closed machine, every route
    res = tlc.run_tlc("MC_AttitudeMachine", cfg("MC_AttitudeMachine_group"), timeout=600)
    chk.add_tlc("AttitudeMachine[2O, all routes, exhaustive]", res)
    if res.violated:
        chk.fail("C01|spec|%s" % res.violated, {"tlc": res.output[-2000:]})
    # (ii) laws on all pairs + emission
    res = tlc.run_tlc("MC_AttitudeMachine", cfg("MC_AttitudeMachine_grid" if quick else "MC_AttitudeMachine_deep"), timeout=1500)
    chk.add_tlc("AttitudeMachine[grid pairs]" if quick else "AttitudeMachine[L(2) x L(1), depth 2]", res)
    if res.violated:
        chk.fail("C01|spec|%s" % res.violated, {"tlc": res.output[-2000:]})
    recs = res.out_records
    if not quick:
        res2 = tlc.run_tlc("MC_AttitudeMachine", cfg("MC_AttitudeMachine_grid"), timeout=1500)
        chk.add_tlc("AttitudeMachine[grid pairs]", res2)
        recs = recs + res2.out_records
    if quick:
        # every register with a deterministic third of the operands (all operands in thorough)
        recs = [r for i, r in enumerate(sorted(recs, key=lambda r: (r["p"], r["v"]))) if i % 3 == chk.seed % 3]
    core.merge(chk, core.pmap(replay_pairs, recs))
    # (iii) behaviours out of the specification, replayed; (iv) their traces validated
    nb = 300 if quick else 3000
    res = tlc.run_tlc("MC_AttitudeMachine", cfg("MC_AttitudeMachine_group"), simulate=nb, depth=12,
                      seed=chk.seed % 100000, workers=1, want_behaviours=True, timeout=900)
    chk.add_tlc("AttitudeMachine[-simulate %d x depth 12]" % nb, res)
    t, traces = replay_behaviours(res.behaviours)
    core.merge(chk, [t])
    validate_traces(chk, traces)
    # relational classes
    core.merge(chk, [relational(chk.seed, 120 if quick else 3000)])
    chk.exhaustive = False


def replay(chk, body):
    case = body["case"]
    if "behaviour" in case:
        print("behaviour replay: re-run ./check C01 quick (behaviours are regenerated from the seed)")
    if "p" in case and "v" in case and isinstance(case["p"], list) and all(float(x).is_integer() for x in case["p"]):
        p, v = [int(x) for x in case["p"]], [int(x) for x in case["v"]]
        from ..core import qmul_int
        rec = {"p": p, "v": v, "pv": qmul_int(p, v), "vp": qmul_int(v, p), "Mp": M_int(p), "Np": norm2(p)}
        core.merge(chk, [replay_pairs([rec])])
    else:
        core.merge(chk, [relational(chk.seed, 120)])
