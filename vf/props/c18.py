"""C18 -- rotation metrics are bi-invariant distances with their closed forms.

Specification: spec/Metrics.tla.  The rational C2(p,q) = (p.q)^2/(N(p)N(q)) = cos^2(t/2) determines
every metric; TLC checks non-negativity, symmetry, sign invariance, zero-iff-same, left/right
invariance, the trace form of the chordal distance and the triangle inequality (integer angle
table) on all 110 592 triples of 2O, and emits the pair table (2O x 2O with exact angles in
degrees; rational pairs with C2).  gamma: t = 2 atan2(sqrt(den-num), sqrt(num))."""
import math
import numpy as np

from .. import core, tlc
from ..core import Tally, g_unit, qmul_int
from ahrs.utils import metrics as MT
import ahrs.utils as UT

QM = ["qdist", "qeip", "qcip", "qad"]


def closed_forms(num, den, deg):
    c = math.sqrt(num / den)
    s = math.sqrt((den - num) / den)
    t = math.radians(deg) if deg >= 0 else 2.0 * math.atan2(s, c)
    return t, {"qad": t, "qcip": t / 2.0, "qeip": 1.0 - c, "qdist": math.sqrt(max(0.0, 2.0 * (1.0 - c))) if c < 0.999 else 2.0 * math.sin(t / 4.0),
               "chordal": 2.0 * math.sqrt(2.0) * s, "identity_deviation": 2.0 * math.sqrt(2.0) * s, "angular_distance": math.sqrt(2.0) * t}


def tol_of(name, t):
    # arccos-based recoveries lose accuracy like eps/sin of their argument's angle
    if name == "qcip":
        return 1e-9 + 4e-16 / max(math.sin(t / 2.0), 1e-12)
    if name == "qad":
        return 1e-9 + 8e-16 / max(abs(math.sin(t)), 1e-12)
    if name == "angular_distance":
        # below 1 rad the documented route (skew part of the matrix over sin) keeps an ABSOLUTE error of a few ulp of the matrix entries:
        # the closed form is demanded to 1e-9 RELATIVE there (the property: "down to 1e-4 rad"), not to 1e-9 absolute
        return 1e-9 + 1e-14 / max(math.sin(t), 1e-7) ** 2 if t > 1 else 1e-9 * t + 2e-14
    if name in ("chordal", "identity_deviation") and t < 1:
        return 1e-9 * t + 2e-14
    return 1e-9


def check_pair(t_, p, q, num, den, deg, cls):
    t, want = closed_forms(num, den, deg)
    fp, fq = g_unit(p), g_unit(q)
    Rp, Rq = core.g_rot(p), core.g_rot(q)
    case = {"p": p, "q": q, "t": t, "class": cls}
    filler = g_unit((2, -1, 3, 1))
    for name in QM:
        fn = getattr(MT, name)
        for variant, call in (("single", lambda: fn(fp.copy(), fq.copy())), ("swapped", lambda: fn(fq.copy(), fp.copy())),
                              ("negated", lambda: fn(-fp, fq.copy())), ("N-row", lambda: fn(np.array([filler, fp]), np.array([filler, fq]))[1]),
                              # square arrays: as many rows as a quaternion has components (and one less), where shape-based dispatch is ambiguous
                              ("4-row", lambda: fn(np.array([filler, fp, filler, fq]), np.array([filler, fq, fp, fp]))[1]),
                              ("3-row", lambda: fn(np.array([filler, filler, fp]), np.array([fp, filler, fq]))[2]),
                              # the same function reached through the package namespace (ahrs.utils.<name>, as the documentation does)
                              ("ahrs.utils namespace", lambda: getattr(UT, name)(fp.copy(), fq.copy())),
                              ("ahrs.utils namespace, 3-row", lambda: getattr(UT, name)(np.array([filler, filler, fp]), np.array([fp, filler, fq]))[2])):
            t_.calls += 1
            o = core.outcome(call)
            if o[0] != "ok":
                t_.fail("C18|%s|%s|raises-%s|%s" % (name, variant, o[1], cls), dict(case, err=o[2]))
                continue
            if np.ndim(o[1]) != 0:
                t_.fail("C18|%s|%s|not-one-distance-per-row|%s" % (name, variant, cls), dict(case, got=np.asarray(o[1])))
                continue
            v = float(o[1])
            if not (abs(v - want[name]) <= tol_of(name, t) and v >= 0):
                t_.fail("C18|%s|%s|not-closed-form|%s" % (name, variant, cls), dict(case, got=v, want=want[name]))
    for name, call in (("chordal", lambda: MT.chordal(Rp, Rq)), ("chordal[N-row]", lambda: MT.chordal(np.array([Rq, Rp]), np.array([Rq, Rq]))[1]),
                       ("chordal[3-row]", lambda: MT.chordal(np.array([Rq, Rq, Rp]), np.array([Rp, Rq, Rq]))[2]),
                       ("chordal[ahrs.utils namespace]", lambda: UT.chordal(Rp, Rq)),
                       ("chordal[ahrs.utils namespace, 3-row]", lambda: UT.chordal(np.array([Rq, Rq, Rp]), np.array([Rp, Rq, Rq]))[2]),

                       ("chordal[swapped]", lambda: MT.chordal(Rq, Rp)),
                       ("identity_deviation", lambda: MT.identity_deviation(Rp, Rq)), ("identity_deviation[swapped]", lambda: MT.identity_deviation(Rq, Rp)),
                       ("angular_distance", lambda: MT.angular_distance(Rp, Rq)), ("angular_distance[swapped]", lambda: MT.angular_distance(Rq, Rp))):
        base = name.split("[")[0]
        t_.calls += 1
        o = core.outcome(call)
        if o[0] != "ok":
            t_.fail("C18|%s|raises-%s|%s" % (name, o[1], cls), dict(case, err=o[2]))
            continue
        if np.ndim(o[1]) != 0:
            t_.fail("C18|%s|not-one-distance-per-row|%s" % (name, cls), dict(case, got=np.asarray(o[1])))
            continue
        v = float(o[1])
        if not (abs(v - want[base]) <= tol_of(base, t) and v >= 0):
            t_.fail("C18|%s|not-closed-form|%s" % (name, cls), dict(case, got=v, want=want[base]))
    # the package namespace hands out the metrics module's own functions (a helper of the same name in a sibling module must not shadow them)
    for name in QM + ["chordal", "identity_deviation", "angular_distance"]:
        if getattr(UT, name, None) is not getattr(MT, name):
            t_.fail("C18|%s|ahrs.utils.%s-is-not-the-metrics-function" % (name, name), {"resolves_to": repr(getattr(UT, name, None))[:120]})
    # the caller keeps its arrays and asks again (d(A,B), d(B,A), d(A,B)): every answer is the closed form
    held = [("chordal", MT.chordal, np.array([Rq, Rp]), np.array([Rq, Rq]))]
    held += [(name, getattr(MT, name), np.array([filler, fp]), np.array([filler, fq])) for name in QM]
    for name, fn, A, B in held:
        for step, (x, y) in enumerate(((A, B), (B, A), (A, B))):
            t_.calls += 1
            o = core.outcome(lambda: fn(x, y))
            if o[0] != "ok":
                t_.fail("C18|%s|held-arrays|raises-%s|%s" % (name, o[1], cls), dict(case, err=o[2], call=step))
                break
            v = float(np.asarray(o[1], dtype=float)[1])
            if not (abs(v - want[name]) <= tol_of(name, t) and v >= 0):
                t_.fail("C18|%s|held-arrays|call-%d-not-closed-form|%s" % (name, step + 1, cls), dict(case, got=v, want=want[name]))
                break
    t_.keys.add((cls, tuple(p), tuple(q)))


def replay_cases(recs):
    t = Tally()
    for r in recs:
        num, den = r["c2"]
        deg = r["deg"]
        cls = "t=%d" % deg if deg >= 0 else "t=180" if num == 0 else "t=0" if num == den else ("t<0.1" if num * 400 > den * 399 else ("t>pi-0.1" if num * 400 < den else "generic"))
        check_pair(t, r["p"], r["q"], num, den, deg, cls)
        if len(t.samples) < 2:
            t.samples.append(r)
    return t


def thin_and_invariance(seed, n):
    t = Tally()
    # thin pairs: q = p * e with e = (K, a): relative angle 2 atan(|a|/K) down to 1e-4 (bigint mirror of C2)
    for K in (20, 200, 2000, 20000):
        for a in ((1, 0, 0), (0, 1, -1), (1, 2, 2)):
            for p in ((1, 0, 0, 0), (3, 1, -2, 1), (0, 1, 2, 2)):
                e = (K,) + a
                q = qmul_int(p, e)
                num = sum(x * y for x, y in zip(p, q)) ** 2
                den = sum(x * x for x in p) * sum(x * x for x in q)
                check_pair(t, list(p), list(q), num, den, -1, "t~%.0e" % (2.0 * math.sqrt(sum(c * c for c in a)) / K))
        # near pi: e = (1, K a)
        for a in ((1, 0, 0), (1, 2, 2)):
            e = (1, K * a[0], K * a[1], K * a[2])
            p = (3, 1, -2, 1)
            q = qmul_int(p, e)
            num = sum(x * y for x, y in zip(p, q)) ** 2
            den = sum(x * x for x in p) * sum(x * x for x in q)
            check_pair(t, list(p), list(q), num, den, -1, "pi-t~%.0e" % (2.0 / (K * math.sqrt(sum(c * c for c in a)))))
    r = core.rng(seed, "c18")
    from .c05 import qmul
    from ..sensorworld import M_float
    for i in range(n):
        a, b, c, g = [x / np.linalg.norm(x) for x in r.normal(size=(4, 4))]
        if i % 3 == 0:
            ang = 10.0 ** r.uniform(-4, 0)
            ax = r.normal(size=3)
            ax /= np.linalg.norm(ax)
            b = qmul(a, np.r_[math.cos(ang / 2), math.sin(ang / 2) * ax])
        t.keys.add(("inv", i))
        for name in QM:
            fn = getattr(MT, name)
            d0 = float(fn(a.copy(), b.copy()))
            dl = float(fn(qmul(g, a), qmul(g, b)))
            dr = float(fn(qmul(a, g), qmul(b, g)))
            t.calls += 3
            if not (abs(d0 - dl) <= 1e-9 and abs(d0 - dr) <= 1e-9):
                t.fail("C18|%s|not-bi-invariant" % name, {"a": a, "b": b, "g": g, "d": d0, "left": dl, "right": dr})
            if name != "qeip":      # the true metrics
                dac, dab, dbc = float(fn(a.copy(), c.copy())), d0, float(fn(b.copy(), c.copy()))
                if not dac <= dab + dbc + 1e-9:
                    t.fail("C18|%s|triangle-inequality" % name, {"a": a, "b": b, "c": c, "d": (dac, dab, dbc)})
        Ra, Rb, Rc, Rg = M_float(a), M_float(b), M_float(c), M_float(g)
        for name in ("chordal", "identity_deviation", "angular_distance"):
            fn = getattr(MT, name)
            d0 = float(fn(Ra, Rb))
            dl = float(fn(Rg @ Ra, Rg @ Rb))
            dr = float(fn(Ra @ Rg, Rb @ Rg))
            t.calls += 3
            lim = 1e-9 if name != "angular_distance" else 1e-7
            if not (abs(d0 - dl) <= lim and abs(d0 - dr) <= lim):
                t.fail("C18|%s|not-bi-invariant" % name, {"a": a, "b": b, "g": g, "d": d0, "left": dl, "right": dr})
            if not float(fn(Ra, Rc)) <= d0 + float(fn(Rb, Rc)) + 1e-7:
                t.fail("C18|%s|triangle-inequality" % name, {"a": a, "b": b, "c": c})
            # zero when the two rotations coincide: the same matrix twice (generic float rotations, and products of them)
            for tag, X in (("R", Ra), ("R.G", Ra @ Rg)):
                t.calls += 1
                dz = float(fn(X, X.copy()))
                if not abs(dz) <= 1e-12:
                    t.fail("C18|%s|not-zero-for-coinciding-rotations" % name, {"R": X, "d": dz})
    return t


def run(chk):
    quick = chk.tier == "quick"
    chk.rule = ("pairs emitted by TLC: 2O x 2O (exact relative angles 0/90/120/180 degrees) and a rational grid (C2 exact), thin pairs "
                "with relative angle 1e-4..0.1 and pi-1e-4.. via the bigint mirror; each through 4 quaternion metrics x {single, "
                "swapped, negated, N-row, N-row arrays held by the caller over 3 calls} and 3 matrix metrics x {single, swapped, N-row}; seeded invariance/triangle triples; "
                "distinct = distinct (class, p, q); trivial (not counted) = equal rotations")
    chk.assume("closed forms in t = relative angle; tolerance 1e-9 (+ eps/sin conditioning for arccos-based metrics, stated in tol_of)")
    res = tlc.run_tlc("MC_Metrics", core.spec_cfg("MC_Metrics"), timeout=900)
    chk.add_tlc("Metrics[all triples of 2O]", res)
    if res.violated:
        chk.fail("C18|spec|%s" % res.violated, {"tlc": res.output[-2000:]})
    recs = sorted(res.out_records, key=lambda r: (r["p"], r["q"]))
    if quick:
        recs = [r for i, r in enumerate(recs) if i % 3 == chk.seed % 3]
    core.merge(chk, core.pmap(replay_cases, recs))
    core.merge(chk, [thin_and_invariance(chk.seed, 60 if quick else 3000)])
    chk.distinct = set(k for k in chk.distinct if k[0] != "t=0")


def replay(chk, body):
    run(chk)
