"""C04 -- single-frame estimators recover the attitude exactly from consistent data.

Specification: spec/SensorWorld.tla (convention table, Measure / Estimate machine,
invariants WellPosed and Recovers, the GeneralPosition predicate).  TLC checks that, for
every attitude x dip x convention x scaling, the modelled measurements are well posed
and the modelled estimate maps references and measurements onto each other in the
documented direction; it emits the exact integer measurement vectors per convention.
The harness feeds them (times a positive scaling) to every estimator route and requires
the rotation matrix of the output to equal the exact matrix of the ghost attitude."""
import numpy as np

from .. import core, tlc
from ..core import Tally, maxdiff
from .. import sensorworld as SW

SCALES_Q = [(1.0, 1.0), (9.81, 48.3), (1e-4, 4.83e-5), (1.000004, 0.999997), (9.81, 4.83e-9)]          # unit vectors; m/s^2 and uT; a small acceleration unit with the field in tesla
SCALES_T = [(1.0, 1.0), (9.81, 48.3), (1e-4, 4.83e-5), (1.000004, 0.999997), (9.81, 4.83e-9), (9.81e-9, 48.3), (0.99999, 1.00001), (1.0, 1000.0), (1000.0, 1.0), (3e-3, 7e2), (1e-5, 1e-5), (9.81e6, 4.83e8)]


def classify(rec):
    u = rec["u"]
    nz = sum(1 for c in u if c != 0)
    if rec["gp"]:
        return "general"
    if u[0] == 0:
        return "half-turn"
    if nz == 1:
        return "identity"
    return "special"


def replay_chunk(args):
    recs, scales, only = args
    t = Tally()
    t.traces = []
    for rec in recs:
        u = tuple(rec["u"])
        d = tuple(rec["dip"])
        Rw = core.g_rot(u)
        convs = [(tuple(c[0]), c[1], c[2]) for c in rec["conv"]]
        cls_u = classify(rec)
        for rt in SW.ROUTES:
            if only and rt["name"] not in only:
                continue
            if rt["cls"] == "closed" and not rec["gp"]:
                continue          # outside the property's quantifier for this class
            i = convs.index(rt["conv"])
            acc_i, mag_i = rec["meas"][i]
            if not any(np.cross(rt["conv"][0], SW.href(rt["conv"][1], d))):
                continue          # collinear reference pair (RefsOK)
            for (s1, s2) in scales:
                acc = np.array(acc_i, dtype=float) * (s1 / rec["N"])
                mag = np.array(mag_i, dtype=float) * (s2 / rec["N"])
                t.calls += 1
                t.keys.add((rt["name"], u, d))
                o = core.outcome(lambda: rt["fn"](acc.copy(), mag.copy(), d))
                case = {"route": rt["name"], "u": u, "dip": d, "scale": (s1, s2), "acc": acc, "mag": mag}
                if o[0] != "ok":
                    t.fail("C04|%s|raises-%s|%s" % (rt["name"], o[1], cls_u), dict(case, err=o[2]))
                    continue
                Rm, bad = SW.as_matrix(o[1])
                if bad:
                    t.fail("C04|%s|%s|%s" % (rt["name"], bad, cls_u), dict(case, got=o[1]))
                    continue
                dd = maxdiff(Rm, Rw)
                t.resid(rt["name"], dd)
                # code -> spec: abstract the returned rotation to the integer quaternion it is (alpha) and log
                # the call; TLC (TraceSensorWorld) then decides Recovers in integers
                if (s1, s2) == scales[0] and rec["N"] <= 40 and len(t.traces) < 400 and (hash((rt["name"], u, d)) % 5 == 0):
                    Mi = np.rint(Rm * rec["N"])
                    if maxdiff(Mi / rec["N"], Rm) <= 1e-6:
                        from .. import dcm2quat_model as MOD
                        Mn, Nn = MOD.red_mat([[int(x) for x in row] for row in Mi], rec["N"])
                        cand = MOD.shepperd(Mn, Nn)[0]
                        g0 = 0
                        from math import gcd
                        for c_ in cand:
                            g0 = gcd(g0, abs(c_))
                        t.traces.append({"route": rt["name"], "g": list(rt["conv"][0]), "form": rt["conv"][1], "type": rt["conv"][2],
                                         "dip": list(d), "acc": list(acc_i), "mag": list(mag_i), "out": [c_ // g0 for c_ in cand]})
                if not dd <= rt["tol"]:
                    mode = "transposed" if maxdiff(Rm.T, Rw) <= rt["tol"] else ("off-by<1e-3" if dd < 1e-3 else "wrong-attitude")
                    t.fail("C04|%s|%s|%s" % (rt["name"], mode, cls_u), dict(case, got=Rm, want=Rw, diff=dd))
        if len(t.samples) < 2:
            t.samples.append({"u": u, "dip(c,s)": d, "general_position": rec["gp"], "conventions": rec["conv"][:3], "exact_measurements": rec["meas"][:3]})
    return t


def default_reference_cases(recs):
    """estimators built WITHOUT a dip angle use the reference field they compute themselves (the WMM field of Munich, which has an
    East component): measurements are made from the object's own reference attributes, the attitude must still be recovered"""
    from ahrs import filters as F
    t = Tally()
    makers = [
        ("Davenport()[default reference]", "free", lambda: F.Davenport(), lambda o: (o.g_q, o.m_q), lambda o, a, m: o.estimate(a, m)),
        ("QUEST()[default reference]", "closed", lambda: F.QUEST(), lambda o: (o.g_q, o.m_q), lambda o, a, m: o.estimate(a, m)),
        ("FLAE(eig)[default reference]", "free", lambda: F.FLAE(), lambda o: (o.ref[0], o.ref[1]), lambda o, a, m: o.estimate(a, m, method="eig")),
        ("FLAE(newton)[default reference]", "closed", lambda: F.FLAE(), lambda o: (o.ref[0], o.ref[1]), lambda o, a, m: o.estimate(a, m, method="newton")),
    ]
    for rec in recs:
        u = tuple(rec["u"])
        Rw = core.g_rot(u)
        for name, cls, make, refs, est in makers:
            if cls == "closed" and not rec["gp"]:
                continue
            t.calls += 1
            t.keys.add((name, u))
            obj = make()
            g_ref, m_ref = [np.array(x, dtype=float) for x in refs(obj)]
            acc = Rw.T @ (g_ref / np.linalg.norm(g_ref)) * 9.81
            mag = Rw.T @ (m_ref / np.linalg.norm(m_ref)) * 48.0
            o = core.outcome(lambda: est(obj, acc.copy(), mag.copy()))
            case = {"route": name, "u": u, "gravity_ref": g_ref, "magnetic_ref": m_ref}
            if o[0] != "ok":
                t.fail("C04|%s|raises-%s|%s" % (name, o[1], classify(rec)), dict(case, err=o[2]))
                continue
            Rm, bad = SW.as_matrix(o[1])
            if bad:
                t.fail("C04|%s|%s|%s" % (name, bad, classify(rec)), dict(case, got=o[1]))
                continue
            dd = maxdiff(Rm, Rw)
            t.resid(name, dd)
            if not dd <= 1e-7:
                t.fail("C04|%s|%s|%s" % (name, "off-by<1e-3" if dd < 1e-3 else "wrong-attitude", classify(rec)), dict(case, got=Rm, want=Rw, diff=dd))
    return t


def oleq_cases(args):
    """OLEQ against its as-built model (spec/Oleq.tla): same seed => same start vector => the code's output is the model's"""
    recs, wrecs = args
    from .. import oleq_model as OM
    from ahrs.filters import OLEQ
    t = Tally()
    for r in wrecs:
        t.calls += 1
        got = np.asarray(OLEQ().WW(np.array(r["b"], dtype=float), np.array(r["r"], dtype=float)), dtype=float)
        if not np.array_equal(got, np.array(r["W"], dtype=float)):
            t.fail("C04|OLEQ.WW|differs-from-LeftMat(r)^T.RightMat(b)", {"b": r["b"], "r": r["r"], "got": got, "want": r["W"]})
    for c in recs:
        u = tuple(c["u"])
        g_ref, m_ref = c["refs"]
        frame = "NED" if g_ref[2] < 0 else "ENU"
        wts = np.array(c["weights"], dtype=float)
        acc = np.array(c["meas"][0], dtype=float) * (9.81 / c["N"])          # |g_ref| = 1
        mag = np.array(c["meas"][1], dtype=float) * (48.0 / (c["N"] * np.linalg.norm(m_ref)))
        R = OM.iteration_matrix(c)
        truth = core.g_unit(u)
        for route in ("estimate", "Q[1-D]", "Q[2 rows]", "estimate twice on one object", "Q[1-D, frame in lower case]"):
            t.calls += 1
            t.keys.add(("oleq-as-built", u, tuple(map(tuple, c["refs"])), tuple(c["weights"]), route))
            np.random.seed(4711)
            starts = [OM.draw_start(), OM.draw_start()]
            np.random.seed(4711)
            kw = dict(weights=wts.copy(), magnetic_ref=np.array(m_ref, dtype=float), frame=frame)
            if route == "estimate":
                o = core.outcome(lambda: [OLEQ(**kw).estimate(acc.copy(), mag.copy())])
            elif route == "Q[1-D]":
                o = core.outcome(lambda: [OLEQ(acc.copy(), mag.copy(), **kw).Q])
            elif route == "Q[1-D, frame in lower case]":
                kw["frame"] = frame.lower()
                o = core.outcome(lambda: [OLEQ(acc.copy(), mag.copy(), **kw).Q])
            elif route == "Q[2 rows]":
                o = core.outcome(lambda: list(OLEQ(np.array([acc, acc]), np.array([mag, mag]), **kw).Q))
            else:
                ob = OLEQ(**kw)
                o = core.outcome(lambda: [ob.estimate(acc.copy(), mag.copy()), ob.estimate(acc.copy(), mag.copy())])
            case = {"u": u, "refs": c["refs"], "weights": c["weights"], "route": route, "frame": frame}
            if o[0] != "ok":
                t.fail("C04|OLEQ[as-built]|%s|raises-%s" % (route, o[1]), dict(case, err=o[2]))
                continue
            for k, got in enumerate(o[1]):
                got = np.asarray(got, dtype=float)
                pred, n_it = OM.iterate(R, starts[k])
                d = maxdiff(got, pred) if got.shape == (4,) else float("inf")
                t.resid("oleq-as-built", d if np.isfinite(d) else 1.0)
                if not d <= 1e-9:
                    t.fail("C04|OLEQ[as-built]|%s|output-is-not-the-21-step-power-iteration" % route,
                           dict(case, call=k, got=got, model=pred, multiplications=n_it, diff=d))
                # the model itself: where its iteration has converged it has converged to the attitude (FixedPoint / Dominant)
                if n_it < 21 and not min(maxdiff(pred, truth), maxdiff(pred, -truth)) <= 1e-6:
                    t.fail("C04|harness-mirror|oleq-model-converged-elsewhere", dict(case, model=pred, truth=truth))
    if recs:
        t.samples.append({"oleq-as-built": {"u": recs[0]["u"], "refs": recs[0]["refs"], "weights": recs[0]["weights"]}})
    return t


def thin_records(template):
    """attitudes whose x axis is within 0.03 degrees of the vertical (nose up / nose down) but not vertical, at several headings and
    rolls: in general position, next to the pose the closed-form estimators exclude.  Same record format as TLC's, evaluated by the
    integer mirror of SensorWorld!Meas (the numerators exceed TLC's 32 bits)."""
    from ..core import qmul_int, M_int, norm2
    recs = []
    convs = template["conv"]
    for qy in ((4000, 0, 3998, 0), (3000, 0, -2999, 0), (2500, 0, 2499, 0)):
        for qz in ((3, 0, 0, 1), (1, 0, 0, -2), (7, 0, 0, 5)):
            for qx in ((5, 1, 0, 0), (2, -1, 0, 0), (9, 4, 0, 0)):
                u = qmul_int(qmul_int(qz, qy), qx)
                if not all(u):
                    continue
                Mu = M_int(u)
                for d in ((4, 3), (3, 4), (12, -5)):
                    meas = []
                    for cv in convs:
                        g, form, typ = cv
                        refs = (list(g), [int(x) for x in SW.href(form, d)])
                        rows = Mu if typ == "A" else [[Mu[j][i] for j in range(3)] for i in range(3)]
                        meas.append([[sum(rows[i][j] * r[j] for j in range(3)) for i in range(3)] for r in refs])
                    recs.append({"u": list(u), "dip": list(d), "N": norm2(u), "conv": convs, "meas": meas, "gp": True})
    return recs


def run(chk, only=None):
    quick = chk.tier == "quick"
    chk.rule = ("attitudes (canonical sign) of L(1) [quick] / L(2) [thorough] for the singularity-free class and the general-position "
                "subset of L(3) (all components non-zero) for the closed-form class x dips x positive scalings x %d estimator routes; "
                "exact integer measurement vectors from TLC; distinct = distinct (route, attitude, dip); the identity attitude is one "
                "grid point among many" % len(SW.ROUTES))
    chk.assume("expected = exact matrix of the ghost attitude; tolerance 1e-10 (algebraic routes), 1e-7 (eigen / iterative / "
               "through a closed-form matrix->quaternion conversion), 1e-6 (OLEQ's documented iteration)")
    res = tlc.run_tlc("MC_SensorWorld", core.spec_cfg("MC_SensorWorld_quick" if quick else "MC_SensorWorld_thorough"), timeout=1800)
    chk.add_tlc("SensorWorld[attitudes x dips x conventions x scalings]", res)
    if res.violated:
        chk.fail("C04|spec|%s" % res.violated, {"tlc": res.output[-2000:]})
    recs = res.out_records
    scales = SCALES_Q if quick else SCALES_T
    chunks = [(recs[i::48], scales, only) for i in range(48)]
    import multiprocessing as mp
    with mp.get_context("fork").Pool(16) as pool:
        tallies = pool.map(replay_chunk, chunks)
    core.merge(chk, tallies)
    thin = thin_records(recs[0])
    with mp.get_context("fork").Pool(16) as pool:
        core.merge(chk, pool.map(replay_chunk, [(thin[i::16], scales[:1], only) for i in range(16)]))
    seen_u = {}
    for r in recs:
        seen_u.setdefault(tuple(r["u"]), r)
    core.merge(chk, core.pmap(default_reference_cases, list(seen_u.values())))
    # OLEQ against its as-built model
    r1 = tlc.run_tlc("MC_Oleq", core.spec_cfg("MC_Oleq_laws"), timeout=1200)
    chk.add_tlc("Oleq[W = L(r)^T R(b); symmetric involution; fixed point; unique direction]", r1)
    if r1.violated:
        chk.fail("C04|spec|Oleq|%s" % r1.violated, {"tlc": r1.output[-2000:]})
    r2 = tlc.run_tlc("MC_Oleq", core.spec_cfg("MC_Oleq"), timeout=1200)
    chk.add_tlc("Oleq[iteration matrices: attitudes x reference pairs x weights; Dominant]", r2)
    if r2.violated:
        chk.fail("C04|spec|Oleq|%s" % r2.violated, {"tlc": r2.output[-2000:]})
    oc = r2.out_records
    with mp.get_context("fork").Pool(16) as pool:
        core.merge(chk, pool.map(oleq_cases, [(oc[i::16], r1.out_records if i == 0 else []) for i in range(16)]))
    traces = [tr for tl in tallies for tr in tl.traces][:4000]
    core.validate_traces(chk, "TraceSensorWorld", core.spec_cfg("TraceSensorWorld"), traces, "sensorworld",
                         lambda tr, i: "C04|%s|trace-rejected" % tr["route"])


def replay(chk, body):
    run(chk)


