"""C09 -- quaternion arithmetic obeys the Hamilton algebra laws.

Specification: spec/HamiltonAlgebra.tla (+ MC_Hamilton, TraceHamilton).  TLC checks
associativity / norm-multiplicativity / anti-homomorphism / left-right matrices / inverse
on all triples of the grid and the register machine with storage orders; it emits exact
integer triples and pairs.  Integer-valued non-versors make the float results exact, so
products are compared with tolerance 0."""
import numpy as np

from .. import core, tlc
from ..core import Tally, maxdiff
from .. import attitude as A
from ahrs.common.quaternion import Quaternion, QuaternionArray
from ahrs.common import orientation as ori

ROUTES = ["product", "mul", "matmul", "q_prod", "mult_L", "mult_R"]


def nv(q, order="H"):
    """non-versor Quaternion object holding q (given scalar-first) in storage `order`"""
    q = np.array(q, dtype=float)
    if order == "S":
        return Quaternion(np.roll(q, -1), versor=False, order="S")
    return Quaternion(q, versor=False)


def as_H(obj_or_arr, order):
    a = np.asarray(obj_or_arr, dtype=float)
    return np.roll(a, 1) if order == "S" else a


def prod(route, p, q, order="H", versor=False):
    """p*q through `route`; p is held by an object stored in `order`"""
    p = np.array(p, dtype=float)
    q = np.array(q, dtype=float)
    P = nv(p, order) if not versor else (Quaternion(np.roll(p, -1), order="S") if order == "S" else Quaternion(p))
    if route == "product":
        return np.asarray(P.product(q), dtype=float)
    if route == "mul":
        return np.asarray(P * q, dtype=float)
    if route == "matmul":
        return np.asarray(P @ q, dtype=float)
    if route == "q_prod":
        return np.asarray(ori.q_prod(np.asarray(as_H(P.A, order)).copy(), q.copy()), dtype=float)
    if route == "mult_L":
        return np.asarray(P.mult_L() @ q, dtype=float)
    if route == "mult_R":
        Qo = nv(q, order) if not versor else Quaternion(q)
        return np.asarray(Qo.mult_R() @ as_H(P.A, order), dtype=float)
    raise KeyError(route)


def replay_triples(recs):
    t = Tally()
    for r in recs:
        p, v, w = r["p"], r["v"], r["w"]
        t.keys.add(("triple", tuple(p), tuple(v), tuple(w)))
        want = np.array(r["pvw"], dtype=float)
        route = ROUTES[(p[0] + 2 * v[1] + 3 * w[2] + 4 * p[3] + 5 * v[0]) % len(ROUTES)]
        order = "S" if (p[1] + v[2] + w[3]) % 2 else "H"
        t.calls += 4
        try:
            pv = prod(route, p, v, order)
            left = prod(route, pv, w, order)
            vw = prod(route, v, w, order)
            right = prod(route, p, vw, order)
        except Exception as e:  # noqa
            t.fail("C09|%s|raises-%s" % (route, type(e).__name__), {"p": p, "v": v, "w": w, "err": str(e)[:200]})
            continue
        if not (maxdiff(pv, r["pv"]) == 0 and maxdiff(vw, r["vw"]) == 0):
            t.fail("C09|%s|%s|product-differs-from-exact" % (route, order), {"p": p, "v": v, "w": w, "pv": pv, "vw": vw, "want_pv": r["pv"], "want_vw": r["vw"]})
        if not (maxdiff(left, want) == 0 and maxdiff(right, want) == 0):
            t.fail("C09|%s|%s|associativity" % (route, order), {"p": p, "v": v, "w": w, "(pv)w": left, "p(vw)": right, "want": want})
        # norm multiplicativity on the implementation's own result
        n = np.linalg.norm(left)
        wn = np.sqrt(float(core.norm2(p) * core.norm2(v) * core.norm2(w)))
        if not abs(n - wn) <= 1e-12 * wn:
            t.fail("C09|%s|norm-not-multiplicative" % route, {"p": p, "v": v, "w": w, "norm": n, "want": wn})
        if len(t.samples) < 2:
            t.samples.append({"case": "triple", "p": p, "v": v, "w": w, "exact (pv)w": r["pvw"], "route": route, "order": order})
    return t


def replay_pairs(recs):
    t = Tally()
    for r in recs:
        p, v = r["p"], r["v"]
        t.keys.add(("pair", tuple(p), tuple(v)))
        wpv = np.array(r["pv"], dtype=float)
        wvp = np.array(r["vp"], dtype=float)
        Np = float(core.norm2(p))
        for order in ("H", "S"):
            P = nv(p, order)
            # components are the same whatever the storage order
            t.calls += 1
            if (P.w, P.x, P.y, P.z) != tuple(float(c) for c in p):
                t.fail("C09|components|%s" % order, {"p": p, "got": (P.w, P.x, P.y, P.z)})
            for route in ROUTES:
                t.calls += 2
                try:
                    a = prod(route, p, v, order)
                    b = prod(route, v, p, order)
                except Exception as e:  # noqa
                    t.fail("C09|%s|raises-%s" % (route, type(e).__name__), {"p": p, "v": v, "err": str(e)[:200]})
                    continue
                if not (maxdiff(a, wpv) == 0 and maxdiff(b, wvp) == 0):
                    t.fail("C09|%s|%s|product-differs-from-exact" % (route, order), {"p": p, "v": v, "pv": a, "vp": b, "want": (wpv, wvp)})
            # the same operands scaled by exact powers of two (norms ~1e-8 and ~1e+8): the products scale exactly, tolerance 0
            for e_ in (-27, 27):
                sc = 2.0 ** e_
                ps, vs = [c * sc for c in p], [c * sc for c in v]
                for route in ROUTES:
                    t.calls += 1
                    try:
                        a = prod(route, ps, vs, order)
                    except Exception as e:  # noqa
                        t.fail("C09|%s|raises-%s|scaled-operands" % (route, type(e).__name__), {"p": ps, "v": vs, "err": str(e)[:200]})
                        continue
                    if not maxdiff(a / (sc * sc), wpv) == 0:
                        t.fail("C09|%s|%s|product-differs-from-exact|operands-of-norm-%s" % (route, order, "1e-8" if e_ < 0 else "1e+8"),
                               {"p": ps, "v": vs, "got": a, "want": wpv * sc * sc})
            # right operand given as an object stored in `order`
            t.calls += 1
            Vo = nv(v, order)
            got = np.asarray(nv(p, "H") * Vo, dtype=float)
            if not maxdiff(got, wpv) == 0:
                t.fail("C09|mul|right-operand-object-%s|product-differs-from-exact" % order, {"p": p, "v": v, "got": got, "want": wpv})
            # conjugation reverses products
            t.calls += 3
            cp = as_H(P.conjugate, order)
            cv = as_H(nv(v, order).conj, order)
            want_c = wpv * np.array([1, -1, -1, -1.0])
            got_c = prod("product", cv, cp, order)
            if not (maxdiff(cp, np.array(p, dtype=float) * [1, -1, -1, -1]) == 0 and maxdiff(got_c, want_c) == 0):
                t.fail("C09|conjugate|%s|anti-homomorphism" % order, {"p": p, "v": v, "conj": cp, "got": got_c, "want": want_c})
            # inverse: two-sided, unit or not
            t.calls += 3
            inv = as_H(P.inverse, order)
            one = np.array([1.0, 0, 0, 0])
            l1 = prod("product", p, inv, order)
            l2 = prod("product", inv, p, order)
            d = max(maxdiff(l1, one), maxdiff(l2, one))
            if not d <= 1e-14:
                cls = "non-versor" if abs(Np - 1) > 1e-12 else "versor"
                t.fail("C09|Quaternion.inverse|%s|q*inv!=1" % cls, {"p": p, "order": order, "inverse": inv, "q*inv": l1, "inv*q": l2})
            # versor copies of the same operands: normalised product
            t.calls += 2
            a = prod("mul", p, core.g_unit(v), order, versor=True)
            wa = wpv / np.linalg.norm(wpv)
            if not maxdiff(a, wa) <= 1e-14:
                t.fail("C09|mul|%s|versor-product" % order, {"p": p, "v": v, "got": a, "want": wa})
            # a versor object built from data whose norm has drifted by a few parts per million (logged with few decimals): it is a
            # unit quaternion, and its inverse is two-sided to round-off
            t.calls += 2
            for drift in (1.0 + 4e-6, 1.0 - 3e-6):
                hq = core.g_unit(p) * drift
                Pn = Quaternion(np.roll(hq, -1), order="S") if order == "S" else Quaternion(hq)
                pn = as_H(np.asarray(Pn, dtype=float), order)
                invn = as_H(Pn.inverse, order)
                e1 = np.asarray(Quaternion(pn, versor=False).product(invn), dtype=float)
                e2 = np.asarray(Quaternion(invn, versor=False).product(pn), dtype=float)
                if not (abs(np.linalg.norm(pn) - 1.0) <= 1e-15 * 4 and max(maxdiff(e1, one), maxdiff(e2, one)) <= 1e-14):
                    t.fail("C09|Quaternion.inverse|versor-from-near-unit-data|q*inv!=1", {"p": p, "order": order, "norm": np.linalg.norm(pn), "q*inv": e1, "inv*q": e2})
            # rotation matrix is independent of the storage order
            Pv = Quaternion(np.roll(core.g_unit(p), -1), order="S") if order == "S" else Quaternion(core.g_unit(p))
            Rm = np.asarray(Pv.to_DCM(), dtype=float)
            if not maxdiff(Rm, core.g_rot(p)) <= 1e-14:
                t.fail("C09|to_DCM|%s|matrix-differs" % order, {"p": p, "got": Rm})
        # free-function matrices normalise their argument: compare on the unit quaternion
        t.calls += 2
        fp, fv = core.g_unit(p), core.g_unit(v)
        a = np.asarray(ori.q_mult_L(fp.copy()) @ fv, dtype=float)
        b = np.asarray(ori.q_mult_R(fv.copy()) @ fp, dtype=float)
        wa = wpv / np.linalg.norm(wpv)
        if not (maxdiff(a, wa) <= 1e-14 and maxdiff(b, wa) <= 1e-14):
            t.fail("C09|q_mult_L/R|left-right-matrix", {"p": p, "v": v, "L": a, "R": b, "want": wa})
        # integer containers (lists / integer arrays) as operands of the free function and the operators: same product
        t.calls += 4
        want_int = wpv / np.linalg.norm(np.array(v, dtype=float))
        for name, fn in (("q_prod[int-list-left]", lambda: ori.q_prod([int(c) for c in p], fv.copy())),
                         ("q_prod[int-array-left]", lambda: ori.q_prod(np.array(p, dtype=np.int64), fv.copy())),
                         ("product[int-array-right]", lambda: Quaternion(fv.copy()).product(np.array(p, dtype=np.int64))),
                         ("mul[int-list-right]", lambda: Quaternion(fv.copy()) * [int(c) for c in p])):
            o = core.outcome(fn)
            wv = want_int if "left" in name else wvp / np.linalg.norm(np.array(v, dtype=float))
            if o[0] != "ok":
                t.fail("C09|%s|raises-%s" % (name, o[1]), {"p": p, "v": v, "err": o[2]})
            elif not maxdiff(np.asarray(o[1], dtype=float), wv) <= 1e-14 * max(1.0, np.max(np.abs(wv))):
                t.fail("C09|%s|product-differs-from-exact" % name, {"p": p, "v": v, "got": np.asarray(o[1]), "want": wv})
        # QuaternionArray stored scalar-last exposes the same components / conjugate / matrix
        t.calls += 3
        rows = np.array([np.roll(fp, -1), np.roll(fv, -1)])
        QA = QuaternionArray(rows, order="S")
        comps = np.c_[QA.w, QA.x, QA.y, QA.z]
        cj = np.roll(np.asarray(QA.conjugate(), dtype=float), 1, axis=1)
        if not (maxdiff(comps, np.array([fp, fv])) <= 1e-15 and maxdiff(cj, np.array([fp, fv]) * [1, -1, -1, -1]) <= 1e-15
                and maxdiff(QA.to_DCM()[0], core.g_rot(p)) <= 1e-14):
            t.fail("C09|QuaternionArray|S|components-conjugate-matrix", {"p": p, "v": v})
        if len(t.samples) < 2:
            t.samples.append({"case": "pair", "p": p, "v": v, "exact pv": r["pv"], "exact vp": r["vp"]})
    return t


# ------------------------------------------------------------------ code -> spec
class ViewsDisagree(Exception):
    pass


def live_prod(route, P, order, v, side):
    """product of the LIVE object P (stored in `order`) with the integer operand v, through `route`.
    Array routes read the object's buffer the way a caller would (np.asarray), reordered by the
    storage order the caller asked for -- not by whatever flag the object carries now."""
    v = np.array(v, dtype=float)
    arr = as_H(np.asarray(P, dtype=float), order)
    if side == "R":     # P * v
        if route == "product":
            return np.asarray(P.product(v), dtype=float)
        if route == "mul":
            return np.asarray(P * v, dtype=float)
        if route == "matmul":
            return np.asarray(P @ v, dtype=float)
        if route == "q_prod":
            return np.asarray(ori.q_prod(arr.copy(), v.copy()), dtype=float)
        if route == "mult_L":
            return np.asarray(P.mult_L() @ v, dtype=float)
        if route == "mult_R":
            return np.asarray(nv(v).mult_R() @ arr, dtype=float)
    else:               # v * P
        V = nv(v)
        if route == "product":
            return np.asarray(V.product(P), dtype=float)
        if route == "mul":
            return np.asarray(V * P, dtype=float)
        if route == "matmul":
            return np.asarray(V @ P, dtype=float)
        if route == "q_prod":
            return np.asarray(ori.q_prod(v.copy(), arr.copy()), dtype=float)
        if route == "mult_L":
            return np.asarray(V.mult_L() @ arr, dtype=float)
        if route == "mult_R":
            return np.asarray(P.mult_R() @ v, dtype=float)
    raise KeyError(route)


def observe(P, order):
    """the register as the object exposes it: through the component properties and through the
    buffer; the two views must agree (they are the same quaternion)"""
    props = np.array([P.w, P.x, P.y, P.z], dtype=float)
    arr = as_H(np.asarray(P, dtype=float), order)
    attr = as_H(np.asarray(P.A, dtype=float), order)
    if not (np.array_equal(props, arr) and np.array_equal(props, attr)):
        raise ViewsDisagree("properties %s, buffer %s, .A %s" % (props, arr, attr))
    # the product matrices of the live object are matrices of the same quaternion: L(q) 1 = q = R(q) 1
    one = np.array([1.0, 0.0, 0.0, 0.0])
    Lq, Rq = np.asarray(P.mult_L(), dtype=float) @ one, np.asarray(P.mult_R(), dtype=float) @ one
    if not (np.array_equal(Lq, props) and np.array_equal(Rq, props)):
        raise ViewsDisagree("properties %s, mult_L().1 %s, mult_R().1 %s" % (props, Lq, Rq))
    # documented synonym properties of the live object are the same property (conj / conjugate, inv / inverse, exp / exponential, log / logarithm)
    for a_, b_ in (("conj", "conjugate"), ("inv", "inverse"), ("exp", "exponential"), ("log", "logarithm")):
        if hasattr(P, a_) and hasattr(P, b_):
            try:
                va, vb = np.asarray(getattr(P, a_), dtype=float), np.asarray(getattr(P, b_), dtype=float)
            except Exception:      # both raise alike or not at all: the products / inverses themselves are judged by the trace
                continue
            if not np.array_equal(va, vb, equal_nan=True):
                raise ViewsDisagree("%s %s, %s %s" % (a_, va, b_, vb))
    return props


def record_traces(seed, n, length, devs):
    """Random driver over LIVE non-versor Quaternion objects with integer / dyadic components
    (floats exact => alpha is exact); one event per public call, logged at its return with the
    register as observed.  Returns (traces, failures)."""
    r = core.rng(seed, "c09-traces")
    gens = [u for u in [(a, b, c, d) for a in (-1, 0, 1) for b in (-1, 0, 1) for c in (-1, 0, 1) for d in (-1, 0, 1)] if any(u)]
    traces, fails = [], []
    for i in range(n):
        start = gens[r.integers(len(gens))]
        order = "HS"[r.integers(2)]
        P = nv(start, order)
        den = 1
        events = []
        acts = []
        try:
            for k in range(length):
                choice = int(r.integers(9))
                ev = {"route": "none"}
                if choice == 8:
                    v = gens[r.integers(len(gens))]
                    P[:] = np.array(v, dtype=float) if order == "H" else np.roll(np.array(v, dtype=float), -1)      # element write through the array interface
                    den = 1
                    ev.update(act="Overwrite", v=list(v))
                elif choice <= 1:
                    v = gens[r.integers(len(gens))]
                    route = ROUTES[r.integers(len(ROUTES))]
                    out = live_prod(route, P, order, v, "R" if choice == 0 else "L")
                    ev.update(act="MulRight" if choice == 0 else "MulLeft", route=route, v=list(v))
                    P = nv(out, order)
                elif choice == 2:
                    route = ["conjugate", "conj", "q_conj"][r.integers(3)]
                    if route == "q_conj":
                        out = np.asarray(ori.q_conj(as_H(np.asarray(P, dtype=float), order).copy()), dtype=float)
                    else:
                        out = as_H(getattr(P, route), order)
                    ev.update(act="Conjugate", route=route)
                    P = nv(out, order)
                elif choice == 3:
                    val = observe(P, order)
                    n2 = float(np.dot(val, val)) * den * den
                    s = round(np.sqrt(n2))
                    if s * s != n2 or n2 > 64 or den != 1:
                        continue
                    out = as_H(P.inverse, order)
                    ev.update(act="Invert", s=int(s))
                    den = int(round(n2))
                    P = nv(out, order)
                elif choice == 4:
                    val = observe(P, order)
                    order = "S" if order == "H" else "H"
                    P = nv(val, order)
                    ev.update(act="Restore")
                elif choice == 5:
                    how = ["copy", "view", "slice", "np.copy"][r.integers(4)]
                    P = {"copy": lambda: P.copy(), "view": lambda: P.view(), "slice": lambda: P[:],
                         "np.copy": lambda: np.copy(P, subok=True)}[how]()
                    ev.update(act="Derive", route=how)
                elif choice == 6:
                    val = observe(P, order)
                    n2 = float(np.dot(val, val)) * den * den
                    s = round(np.sqrt(n2))
                    if s * s != n2 or s > 64 or den != 1 or s == 0:
                        continue
                    P.normalize()
                    den = int(s)
                    ev.update(act="Normalize")
                else:
                    ev.update(act="Observe")
                acts.append(ev["act"] + ":" + ev["route"])
                val = observe(P, order)
                num = val * den
                if np.max(np.abs(num)) > 2 ** 20 or not np.all(num == np.rint(num)):
                    break
                ev.update(num=[int(x) for x in num], den=int(den), ord=order)
                events.append(ev)
        except ViewsDisagree as e:
            fails.append(("C09|live-object|views-disagree-after-%s" % (acts[-1].split(":")[0] if acts else "Construct"), {"start": start, "order": order, "actions": acts, "err": str(e)}))
            continue
        except Exception as e:  # noqa
            fails.append(("C09|live-object|raises-%s" % type(e).__name__, {"start": start, "order": order, "actions": acts, "err": str(e)[:200]}))
            continue
        if events:
            o0 = events[0]["ord"]
            if events[0]["act"] == "Restore":
                o0 = "S" if o0 == "H" else "H"
            traces.append({"start": list(start), "ord": o0, "events": events})
    return traces, fails


def run(chk):
    quick = chk.tier == "quick"
    chk.rule = ("triples (p,v,w) of 2T^3 (quick) / 2O^3 (thorough) and pairs (L(1) u part of L(2)) x L(1) emitted by TLC "
                "with exact integer products; every pair through 6 product routes x 2 storage orders; distinct = distinct "
                "triple / pair / recorded trace; non-trivial = all (non-commuting integer quaternions)")
    chk.assume("integer-valued non-normalised operands: float products are exact, tolerance 0; 1e-14 for normalised variants and inverses")
    devs = core.open_deviations("C09")
    res = tlc.run_tlc("MC_Hamilton", core.spec_cfg("MC_Hamilton_quick" if quick else "MC_Hamilton_thorough"), timeout=1200)
    chk.add_tlc("HamiltonAlgebra[laws on all triples]", res)
    if res.violated:
        chk.fail("C09|spec|%s" % res.violated, {"tlc": res.output[-2000:]})
    trip = res.out_records
    res = tlc.run_tlc("MC_Hamilton", core.spec_cfg("MC_Hamilton_pairs"), timeout=1200)
    chk.add_tlc("HamiltonAlgebra[register machine, depth 3, all routes]", res)
    if res.violated:
        chk.fail("C09|spec|%s" % res.violated, {"tlc": res.output[-2000:]})
    pairs = res.out_records
    if quick:
        pairs = [r for i, r in enumerate(sorted(pairs, key=lambda r: (r["p"], r["v"]))) if i % 4 == chk.seed % 4]
    core.merge(chk, core.pmap(replay_triples, trip))
    core.merge(chk, core.pmap(replay_pairs, pairs))
    traces, tfails = record_traces(chk.seed, 600 if quick else 6000, 10, devs)
    for sig, rec in tfails:
        chk.fail(sig, rec)
    chk.evaluations += sum(len(tr["events"]) for tr in traces)
    chk.notes["as_built_deviations"] = devs
    dev_const = "InverseDividesByNorm" if "inverse_divides_by_norm" in devs else "NoDeviation"
    core.validate_traces(chk, "TraceHamilton", core.spec_cfg("TraceHamilton", DEVIATIONS=dev_const), traces, "hamilton",
                         lambda tr, i: "C09|trace-rejected|%s|%s" % (tr["events"][min(i, len(tr["events"])) - 1]["act"],
                                                                  tr["events"][min(i, len(tr["events"])) - 1]["route"]))
    if traces:
        chk.sample({"case": "recorded trace", "start": traces[0]["start"], "events": traces[0]["events"][:3]})


def replay(chk, body):
    c = body["case"]
    if "w" in c and "p" in c:
        p, v, w = c["p"], c["v"], c["w"]
        pv = core.qmul_int(p, v)
        core.merge(chk, [replay_triples([{"p": p, "v": v, "w": w, "pv": pv, "vw": core.qmul_int(v, w), "pvw": core.qmul_int(pv, w)}])])
    elif "p" in c:
        p = [int(x) for x in c["p"]]
        v = [int(x) for x in c.get("v", [1, 0, 0, 0])]
        core.merge(chk, [replay_pairs([{"p": p, "v": v, "pv": core.qmul_int(p, v), "vp": core.qmul_int(v, p)}])])
    else:
        run(chk)
