"""C06 -- batch run equals sample-by-sample streaming; filters deterministic and isolated.

Specification: spec/FilterLifecycle.tla with two instances: Create(i, cfg, s0) / Update(i, s) /
Batch(i, cfg, h) / Drop(i); the abstract state of an instance is (cfg, consumed history).
TLC checks OneRowPerSample, BatchEqualsStream and the action property Isolation over all
interleavings (2 instances, 3 sample ids, histories <= 3 exhaustively; longer by -simulate)
and generates behaviours.  The harness replays every behaviour on real filter objects for
every streaming-capable class/architecture and enforces abstract-state determinism: whenever
two executions (two instances, two interleavings, batch vs stream, first run vs repeat) are in
the same abstract state, their attitudes (1e-12; bit-identical for repeats) and carried state
(covariance P, bias b, adaptive gain) are equal."""
import numpy as np

from .. import core, tlc
from ..core import Tally, maxdiff, g_unit
from .. import filters as FL

Q0 = g_unit((3, 1, -2, 1))
SAMPLES = {
    1: (np.array([0.12, -0.07, 0.25]), np.array([0.4, -0.9, 9.6]), np.array([21.0, -3.5, 42.0])),
    2: (np.array([-0.31, 0.22, 0.05]), np.array([1.9, 0.7, 9.5]), np.array([18.0, 6.0, 44.5])),
    3: (np.array([0.02, 0.41, -0.17]), np.array([-0.8, 2.2, 9.4]), np.array([23.5, 1.5, 40.0])),
}
SHARED_B0 = np.array([0.01, -0.02, 0.005])
SHARED_P = np.identity(4) * 0.5
SHARED_P4 = np.identity(4) * 0.02
BASE = {"frame": "-", "rep": "quaternion", "mode": "-", "gain": "default", "rate": "100Hz"}


def C(f, arch, **kw):
    c = dict(BASE)
    c.update(f=f, arch=arch)
    c.update(kw)
    return c


UNDER_TEST = [
    (C("Madgwick", "IMU"), {"gain": 0.1}, True), (C("Madgwick", "MARG"), {"gain": 0.1}, False),
    (C("Mahony", "IMU"), {}, True), (C("Mahony", "MARG"), {}, True),
    # caller-owned initial bias / covariance arrays shared by every instance the caller builds (isolation)
    (C("Mahony", "IMU", gain="high"), {"b0": SHARED_B0}, True), (C("Mahony", "MARG", gain="low"), {"b0": SHARED_B0}, True),
    (C("EKF", "IMU", frame="ENU"), {"P": SHARED_P}, True), (C("UKF", "IMU", gain="high"), {"P": SHARED_P4}, True),
    (C("EKF", "IMU", frame="NED"), {}, True), (C("EKF", "MARG", frame="NED"), {"magnetic_ref": 60.0}, True), (C("EKF", "MARG", frame="ENU"), {"magnetic_ref": 60.0}, True),
    (C("UKF", "IMU"), {}, True),
    (C("AQUA", "IMU", mode="fixed"), {}, True), (C("AQUA", "MARG", mode="fixed"), {}, True), (C("AQUA", "MARG", mode="adaptive"), {}, True),
    (C("ROLEQ", "MARG", frame="NED"), {"magnetic_ref": 60.0}, True), (C("ROLEQ", "MARG", frame="ENU"), {"magnetic_ref": 60.0}, True),
    (C("Fourati", "MARG"), {}, False),
    (C("AngularRate", "GYR", mode="closed"), {}, True), (C("AngularRate", "GYR", mode="series", gain="high"), {}, True),
    # the series method with its order left to the defaults of the constructor (batch) and of update() (stream)
    (C("AngularRate", "GYR", mode="series"), {}, True),
    # default magnetic reference (the Munich WMM vector, frame-dependent), interleaved with an instance of the OTHER frame
    (C("EKF", "MARG", frame="NED", gain="low"), {}, True, (C("EKF", "MARG", frame="ENU", gain="low"), {}, True)),
    (C("EKF", "MARG", frame="ENU", gain="high"), {}, True, (C("EKF", "MARG", frame="NED", gain="high"), {}, True)),
    (C("ROLEQ", "MARG", frame="ENU", gain="low"), {}, True, (C("ROLEQ", "MARG", frame="NED", gain="low"), {}, True)),
    # an explicit time step that differs from 1/frequency (the constructors accept both)
    (C("Madgwick", "MARG", rate="3Hz"), {"gain": 0.1, "Dt": 0.02}, False), (C("Mahony", "IMU", rate="3Hz"), {"Dt": 0.02}, True),
    (C("EKF", "MARG", frame="NED", rate="3Hz"), {"magnetic_ref": 60.0, "Dt": 0.02}, True), (C("UKF", "IMU", rate="3Hz"), {"Dt": 0.02}, True),
    (C("AQUA", "MARG", mode="fixed", rate="3Hz"), {"Dt": 0.02}, True), (C("ROLEQ", "MARG", frame="NED", rate="3Hz"), {"magnetic_ref": 60.0, "Dt": 0.02}, True),
    (C("Fourati", "MARG", rate="3Hz"), {"Dt": 0.02}, False), (C("AngularRate", "GYR", mode="closed", rate="3Hz"), {"Dt": 0.02}, True),
    # the time step handed to every single update (dt=...) of an object built with the DEFAULT rate; the batch is built with Dt
    (C("Madgwick", "IMU", rate="1000Hz"), {"gain": 0.1, "__dt__": 0.02}, True), (C("Madgwick", "MARG", rate="1000Hz"), {"gain": 0.1, "__dt__": 0.02}, False),
    (C("Mahony", "MARG", rate="1000Hz"), {"__dt__": 0.02}, True), (C("EKF", "IMU", frame="NED", rate="1000Hz"), {"__dt__": 0.02}, True),
    (C("EKF", "MARG", frame="ENU", rate="1000Hz"), {"magnetic_ref": 60.0, "__dt__": 0.02}, True), (C("UKF", "IMU", rate="1000Hz"), {"__dt__": 0.02}, True),
    (C("AQUA", "MARG", mode="fixed", rate="1000Hz"), {"__dt__": 0.02}, True), (C("ROLEQ", "MARG", frame="NED", rate="1000Hz"), {"magnetic_ref": 60.0, "__dt__": 0.02}, True),
    (C("Fourati", "MARG", rate="1000Hz"), {"__dt__": 0.02}, False), (C("AngularRate", "GYR", mode="closed", rate="1000Hz"), {"__dt__": 0.02}, True),
    # no initial attitude given: the first row comes from the class's own initialiser (for ROLEQ: OLEQ, which draws from NumPy's RNG)
    # (ROLEQ's start depends on where the global RNG stands when the object is built: only the exact repeat under the same seed and the
    # fresh-interpreter run are comparable, not other interleavings)
    (C("ROLEQ", "MARG", frame="NED", gain="high"), {"magnetic_ref": 60.0, "__repeat_only__": True}, False, (C("ROLEQ", "MARG", frame="ENU", gain="low"), {"magnetic_ref": 55.0}, True)),
    (C("EKF", "MARG", frame="NED", gain="high"), {"magnetic_ref": 60.0}, False),
    (C("Mahony", "MARG", gain="high"), {}, False), (C("AQUA", "MARG", mode="fixed", gain="high"), {}, False),
    # the complementary and the fast Kalman filter, with and without an initial attitude (without: the first row comes from the
    # accelerometer/magnetometer alone, through the N-row helper for the batch and the one-sample helper for the stream)
    (C("Complementary", "IMU"), {}, True), (C("Complementary", "MARG"), {}, True),
    (C("Complementary", "IMU", gain="high"), {}, False, (C("Complementary", "MARG", gain="low"), {}, False)),
    (C("Complementary", "MARG", gain="high"), {}, False, (C("Complementary", "IMU", gain="low"), {}, False)),
    (C("FKF", "MARG"), {}, True), (C("FKF", "MARG", gain="high"), {}, False),
    # the per-sensor noise options (handled by name inside the class)
    (C("EKF", "MARG", frame="NED", gain="low", rate="3Hz"), {"magnetic_ref": 60.0, "var_acc": 0.01, "var_gyr": 0.002, "var_mag": 0.6}, True),
    (C("EKF", "IMU", frame="ENU", gain="low", rate="3Hz"), {"var_acc": 0.02}, True),
]


def split_extra(ex):
    """-> (constructor options for a data-less streaming object, constructor options for the batch, dt handed to each update)"""
    if "__dt__" not in ex:
        ex = {k: v for k, v in ex.items() if not k.startswith("__")}
        return ex, ex, None
    base = {k: v for k, v in ex.items() if not k.startswith("__")}
    return dict(base, frequency=100.0), dict(base, Dt=ex["__dt__"]), ex["__dt__"]


def name_of(c):
    return "%s|%s" % (c["f"], "|".join(c[k] for k in ("arch", "frame", "mode", "gain", "rate") if c[k] not in ("-", "default", "100Hz")))


def data(h):
    g = np.array([SAMPLES[s][0] for s in h])
    a = np.array([SAMPLES[s][1] for s in h])
    m = np.array([SAMPLES[s][2] for s in h])
    return g, a, m


def carried(cfg, obj):
    out = {}
    for att in ("P", "b", "alpha", "Pk"):
        if hasattr(obj, att):
            v = getattr(obj, att)
            if isinstance(v, (float, int, np.ndarray)):
                out[att] = np.array(v, dtype=float).copy()
    return out


SOLO_IDS = [1, 2, 3, 1, 2, 2]


def solo(ti):
    """the configuration alone, in this process as it is now: batch over a fixed history"""
    real, extra, honours = UNDER_TEST[ti][:3]
    np.random.seed(12345)
    g, a, m = data(SOLO_IDS)
    out = np.asarray(FL.batch(real, g, a, m, q0=Q0 if honours else None, extra=split_extra(extra)[1])[1], dtype=float)
    return [[float(x).hex() for x in row] for row in out]


def fresh_solo(ti, hashseed=None):
    """the same in a FRESH interpreter (nothing else has been constructed there): the reference for isolation from
    process-wide state (module-level caches, class attributes, NumPy's global RNG)"""
    import subprocess, sys, json, os
    code = "import sys, json; sys.path.insert(0, %r); sys.path.insert(0, %r); import warnings; warnings.filterwarnings('ignore'); from vf.props import c06; print(json.dumps(c06.solo(%d)))" % (
        os.path.dirname(os.path.dirname(os.path.dirname(os.path.abspath(__file__)))), os.environ.get("AHRS_REPO", "/repo"), ti)
    try:
        p = subprocess.run([sys.executable, "-c", code], stdout=subprocess.PIPE, stderr=subprocess.PIPE, text=True, env=dict(os.environ, PYTHONDONTWRITEBYTECODE="1", **({} if hashseed is None else {"PYTHONHASHSEED": str(hashseed)})), timeout=900)
    except subprocess.TimeoutExpired:
        return {"error": "no result within 900 s"}
    if p.returncode != 0:
        return {"error": p.stderr[-400:]}
    return json.loads(p.stdout.strip().splitlines()[-1])


def replay_behaviours(args):
    behs, ti, fresh = args
    t = Tally()
    real, extra, honours = UNDER_TEST[ti][:3]
    other = UNDER_TEST[ti][3] if len(UNDER_TEST[ti]) > 3 else UNDER_TEST[(ti + 5) % len(UNDER_TEST)][:3]
    cname = name_of(real)
    seen = {}
    # isolation from process-wide state: first let an instance of the OTHER configuration live in this process, then run this
    # configuration alone; the rows must be bit-identical to the same run in a fresh interpreter
    try:
        g_, a_, m_ = data(SOLO_IDS)
        FL.batch(other[0], g_, a_, m_, q0=Q0 if other[2] else None, extra=split_extra(other[1])[1])
    except Exception:
        pass
    if isinstance(fresh, dict):
        t.fail("C06|%s|fresh-interpreter-run-raises" % cname, fresh)
    else:
        t.calls += 1
        o = core.outcome(lambda: solo(ti))
        if o[0] != "ok":
            t.fail("C06|%s|Batch-raises-%s" % (cname, o[1]), {"err": o[2]})
        elif o[1] != fresh:
            t.fail("C06|%s|depends-on-what-ran-before-in-the-process" % cname, {"other": name_of(other[0]), "here": o[1][-1], "fresh_interpreter": fresh[-1]})

    # batch = streaming also over a history with sensor dropouts (all-zero accelerometer / magnetometer rows while the gyroscope reads a
    # real rate): whatever a class does with such a row, the N-sample constructor and the per-sample method do the same
    if not extra.get("__repeat_only__") and real["f"] not in ("Complementary", "FKF"):
        n_ = 30
        rng_ = core.rng(7, "c06-dropout", cname)
        for kind in ("acc", "mag", "acc+mag"):
            ids_ = [1 + (i * 7 + i // 3) % 3 for i in range(n_)]
            g_, a_, m_ = data(ids_)
            g_ = g_ + np.array([1.1, -0.6, 0.8])                 # a brisk rotation: a wrong time step over the gap shows
            a_, m_ = a_.copy(), m_.copy()
            if "acc" in kind:
                a_[10:15] = 0.0
            if "mag" in kind:
                m_[18:21] = 0.0
            if kind == "mag" and real["arch"] != "MARG":
                continue
            t.calls += 1

            def both():
                ex_s, ex_b, dt_ = split_extra(extra)
                hon = honours
                _, outb = FL.batch(real, g_, a_, m_, q0=Q0.copy() if hon else None, extra=ex_b)
                outb = np.asarray(outb, dtype=float)
                obj = FL.create(real, extra=ex_s)
                rows = [outb[0].copy()]
                for i in range(1, n_):
                    rows.append(np.asarray(FL.step(real, obj, rows[-1], g_[i], a_[i], m_[i], dt=dt_), dtype=float))
                return outb, np.array(rows)
            o = core.outcome(both)
            if o[0] != "ok":
                if o[1] != "ValueError":        # a class may refuse a null sample outright (then both routes refuse it: C13 decides that)
                    t.fail("C06|%s|dropout-history-raises-%s" % (cname, o[1]), {"kind": kind, "err": o[2]})
                continue
            outb, outs = o[1]
            d_ = maxdiff(outb, outs)
            if not d_ <= 1e-12:
                k_ = int(np.argmax(np.max(np.abs(outb - outs), axis=1) > 1e-12))
                t.fail("C06|%s|batch-vs-stream-over-a-dropout|%s" % (cname, kind), {"kind": kind, "first_row_that_differs": k_, "batch": outb[k_], "stream": outs[k_], "diff": d_})

    if extra.get("__repeat_only__") and other[2]:
        # the one estimator that draws from NumPy's global RNG, under ONE seed: an instance of another configuration that was GIVEN its
        # initial attitude (and so has no use for random numbers) runs first -- the draws this configuration sees are the same
        t.calls += 2
        g_, a_, m_ = data(SOLO_IDS)

        def seeded(with_other):
            np.random.seed(24680)
            if with_other:
                FL.batch(other[0], g_, a_, m_, q0=Q0, extra=split_extra(other[1])[1])
            return np.asarray(FL.batch(real, g_, a_, m_, extra=split_extra(extra)[1])[1], dtype=float)
        o1, o2 = core.outcome(lambda: seeded(False)), core.outcome(lambda: seeded(True))
        if o1[0] == "ok" and o2[0] == "ok" and not np.array_equal(o1[1], o2[1]):
            t.fail("C06|%s|another-instance-consumes-the-global-random-stream" % cname, {"other": name_of(other[0]), "alone": o1[1][0], "after_other": o2[1][0]})

    def conc(model_cfg):
        # the model's two configurations: the Madgwick one stands for the class under test, the other for a
        # second, different class running in the same process
        return (real, extra, honours) if model_cfg["f"] == "Madgwick" else other

    def init_att(rc, ex, hon, s0):
        if hon:
            return Q0.copy()
        g, a, m = data([s0, s0])
        return np.asarray(FL.batch(rc, g, a, m, extra=split_extra(ex)[1])[1], dtype=float)[0]

    for rep in (0, 1):        # the repeat must be bit-identical
        for bi, b in enumerate(behs):
            np.random.seed(12345)
            inst = {}
            acts = []
            for step in b[1:]:
                act, args_ = step["action"], step["args"]
                acts.append((act,) + tuple(str(a) for a in args_))
                try:
                    if act == "Create":
                        i, mc, s0 = args_
                        rc, ex, hon = conc(mc)
                        obj = FL.create(rc, extra=split_extra(ex)[0])
                        q = init_att(rc, ex, hon, s0[0])
                        inst[i] = {"cfg": rc, "ex": ex, "obj": obj, "hist": [s0[0]], "rows": [np.array(q, dtype=float)], "how": "stream", "dt": split_extra(ex)[2]}
                    elif act == "Update":
                        i, s = args_
                        st = inst[i]
                        g, a, m = SAMPLES[s[0]]
                        q = FL.step(st["cfg"], st["obj"], st["rows"][-1], g, a, m, dt=st.get("dt"))
                        st["rows"].append(np.array(q, dtype=float))
                        st["hist"].append(s[0])
                    elif act == "Batch":
                        i, mc, h = args_
                        rc, ex, hon = conc(mc)
                        ids = [s[0] for s in h]
                        g, a, m = data(ids)
                        obj, out = FL.batch(rc, g, a, m, q0=Q0 if hon else None, extra=split_extra(ex)[1])      # Q0: the caller's array itself, not a copy
                        inst[i] = {"cfg": rc, "ex": ex, "obj": obj, "hist": ids, "rows": [np.array(r, dtype=float) for r in np.asarray(out)], "how": "batch"}
                    elif act == "Drop":
                        inst.pop(args_[0], None)
                        continue
                    else:
                        raise KeyError(act)
                except FL.BatchOnly:
                    break
                except Exception as e:  # noqa
                    which = conc(args_[1])[0] if act in ("Create", "Batch") else inst[args_[0]]["cfg"]
                    if name_of(which) == cname:
                        t.fail("C06|%s|%s-raises-%s" % (cname, act, type(e).__name__), {"behaviour": acts, "err": str(e)[:200]})
                    break
                t.calls += 1
                # abstract-state determinism for every live instance
                for i, st in inst.items():
                    key = (name_of(st["cfg"]), tuple(st["hist"]))
                    obs = (np.array(st["rows"]), carried(st["cfg"], st["obj"]), st["how"], tuple(acts))
                    if key not in seen:
                        seen[key] = (obs, rep)
                        continue
                    (rows0, car0, how0, acts0), rep0 = seen[key]
                    if key[0] != cname:
                        continue
                    exact = (rep0 != rep and acts0 == obs[3])
                    if extra.get("__repeat_only__") and not exact:
                        continue
                    d = maxdiff(rows0, obs[0])
                    t.resid("rows", d if np.isfinite(d) else 1.0)
                    bad = None
                    if exact and not np.array_equal(rows0, obs[0]):
                        bad = "repeat-not-bit-identical"
                    elif not d <= 1e-12:
                        bad = "batch-vs-stream" if how0 != obs[2] else ("interleaving-dependent" if acts0 != obs[3] else "repeat-differs")
                    else:
                        for k in car0:
                            if k in obs[1] and not maxdiff(car0[k], obs[1][k]) <= 1e-12:
                                bad = "carried-state-%s-differs" % k
                    if bad:
                        t.fail("C06|%s|%s" % (cname, bad), {"history": key[1], "first": {"how": how0, "actions": acts0, "rows": rows0},
                                                             "second": {"how": obs[2], "actions": obs[3], "rows": obs[0]}, "diff": d})
            t.keys.add((cname, tuple(acts)))
    if behs:
        t.samples.append({"class": cname, "behaviour": [(s["action"], str(s["args"])) for s in behs[0][1:6]], "abstract_states_compared": len(seen)})
    return t


def run(chk):
    quick = chk.tier == "quick"
    chk.rule = ("behaviours of the two-instance lifecycle machine (Create / Update / Batch / Drop over 3 sample ids, interleaved) generated "
                "by TLC -simulate, each replayed for %d streaming-capable class/architecture/frame/mode configurations and repeated once; "
                "distinct = distinct (configuration, behaviour); every behaviour has >= 2 updates or a batch, none is trivial" % len(UNDER_TEST))
    chk.assume("equal abstract state (cfg, initial attitude, consumed history) => attitudes equal within 1e-12 and carried state (P, b, alpha) "
               "equal within 1e-12; the same behaviour repeated => bit-identical; explicit gain for Madgwick (its default depends on ctor data)")
    res = tlc.run_tlc("MC_FilterLifecycle", core.spec_cfg("MC_FilterLifecycle_two"), timeout=1200)
    chk.add_tlc("FilterLifecycle[2 instances, 3 ids, len<=3, exhaustive]", res)
    if res.violated:
        chk.fail("C06|spec|%s" % res.violated, {"tlc": res.output[-2000:]})
    nb = 150 if quick else 1500
    cfgtxt = core.spec_cfg("MC_FilterLifecycle_two").replace("MaxLen = 3", "MaxLen = 6")
    res = tlc.run_tlc("MC_FilterLifecycle", cfgtxt, simulate=nb, depth=14, seed=chk.seed % 100000, workers=1, want_behaviours=True, timeout=1200)
    chk.add_tlc("FilterLifecycle[-simulate %d x depth 14, len<=6]" % nb, res)
    behs = res.behaviours
    from concurrent.futures import ThreadPoolExecutor
    with ThreadPoolExecutor(16) as ex:
        fresh = list(ex.map(fresh_solo, range(len(UNDER_TEST))))
        # the same run in interpreters with other string-hash seeds (the order of sets and dicts of strings differs between them)
        for hs in (101, 202):
            other_seed = list(ex.map(lambda ti_: fresh_solo(ti_, hs), range(len(UNDER_TEST))))
            for ti_, (a_, b_) in enumerate(zip(fresh, other_seed)):
                if not isinstance(a_, dict) and a_ != b_:
                    chk.fail("C06|%s|depends-on-the-interpreter's-hash-seed" % name_of(UNDER_TEST[ti_][0]),
                             {"PYTHONHASHSEED": hs, "here": (b_ if isinstance(b_, dict) else b_[-1]), "default": a_[-1]})
    import multiprocessing as mp
    # one process per configuration, forked from this parent (which has constructed no estimator): what "ran before" in the
    # process is then exactly the OTHER configuration of replay_behaviours, not whatever a reused pool worker did earlier
    with mp.get_context("fork").Pool(16, maxtasksperchild=1) as pool:
        core.merge(chk, pool.map(replay_behaviours, [(behs, ti, fresh[ti]) for ti in range(len(UNDER_TEST))], chunksize=1))


def replay(chk, body):
    run(chk)
