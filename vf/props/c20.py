"""C20 -- synthetic sensor data agree with their own ground truth.

Specification: spec/SyntheticSensors.tla -- a trajectory q_k = q_0 r^k seen by ideal sensors
(body-frame images of the reference vectors), with the integer invariants ConstantRate,
RigidReadings, BackToReference checked by TLC, which emits the (q_0, r) cases.  The harness
builds the exact trajectory (bigint mirror for realistic step angles), feeds it to
ahrs.Sensors with every noise level set to zero and requires: accelerometers / magnetometers
= R_k^T ref (1e-12 relative), rotations / quaternions / angular positions describe the same
attitudes, gyroscopes - bias = the generator's own first-order rate, bias-corrected
gyroscopes integrate back to the trajectory, reported noise attributes = requested ones."""
import math
import numpy as np

from .. import core, tlc
from ..core import Tally, maxdiff, g_unit, qmul_int
from ahrs.utils.sensors import Sensors
from ahrs import filters as F
from ahrs.common.quaternion import QuaternionArray

GREF = np.array([0.0, 0.0, 9.80665])
MREF = np.array([21000.0, 1400.0, 43500.0])


def trajectory(q0, r, n):
    rows, p = [], tuple(q0)
    for k in range(n):
        rows.append(g_unit(p))
        p = qmul_int(p, tuple(r))
        if max(abs(c) for c in p) > 10 ** 60:
            g = math.gcd(*[abs(c) for c in p])
            p = tuple(c // g for c in p)
            p = tuple(c // 10 ** 30 if False else c for c in p)
    return np.array(rows)


def exact_rot(q0, r, k):
    p = tuple(q0)
    for _ in range(k):
        p = qmul_int(p, tuple(r))
    return core.g_rot(p)


GREFS = [np.array([0.0, 0.0, 9.80665]), np.array([0.03, -0.02, 9.81]), np.array([1.5, 0.5, 9.81]), np.array([0.0, 9.81, 0.0])]
MREFS = [np.array([21000.0, 1400.0, 43500.0]), np.array([0.0, 0.0, 50000.0]), np.array([-15000.0, 30000.0, -20000.0]), np.array([21000.0, 1400.0, 43500.0])]


def check_given(t, q0, r, n, freq, in_deg, norm_mag, cls, ref=None):
    # the documented reference options: the default-like vertical gravity, and references with horizontal components
    global GREF, MREF
    ri = (sum(abs(int(c)) for c in q0) + sum(abs(int(c)) for c in r) + n) % len(GREFS) if ref is None else ref
    GREF, MREF = GREFS[ri], MREFS[ri]
    Q = trajectory(q0, r, n)
    case = {"q0": q0, "r": r, "n": n, "freq": freq, "in_degrees": in_deg, "normalized_mag": norm_mag, "gravity_ref": GREF, "magnetic_ref": MREF}
    t.keys.add((cls, tuple(q0), tuple(r), n, freq, in_deg, norm_mag, ri))
    kw = dict(gyr_noise=0.0, acc_noise=0.0, mag_noise=0.0, in_degrees=in_deg, normalized_mag=norm_mag,
              reference_gravitational_vector=GREF.copy(), reference_magnetic_vector=MREF.copy())
    t.calls += 1
    o = core.outcome(lambda: Sensors(quaternions=Q.copy(), freq=freq, **kw))
    if o[0] != "ok":
        t.fail("C20|Sensors(quaternions=)|raises-%s|%s" % (o[1], cls), dict(case, err=o[2]))
        return
    S = o[1]
    if len(S.accelerometers) != n or S.num_samples != n:
        t.fail("C20|Sensors(quaternions=)|sample-count|%s" % cls, dict(case, got=len(S.accelerometers)))
        return
    # reported noise attributes are the requested ones
    for att in ("gyr_noise", "acc_noise", "mag_noise"):
        if not np.all(np.asarray(getattr(S, att)) == 0.0):
            t.fail("C20|Sensors|%s-attribute-differs-from-request" % att, dict(case, got=getattr(S, att)))
    idx = sorted(set([0, 1, n // 2, n - 1] + list(range(5, n, 10))))
    for k in idx:
        R = exact_rot(q0, r, k) if n <= 60 else None
        Rk = np.asarray(S.rotations[k], dtype=float)
        if R is not None and not maxdiff(Rk, R) <= 1e-12:
            t.fail("C20|rotations|differ-from-trajectory|%s" % cls, dict(case, k=k, got=Rk, want=R))
        qk = np.asarray(S.quaternions[k], dtype=float)
        if not min(maxdiff(qk, Q[k]), maxdiff(qk, -Q[k])) <= 1e-12:
            t.fail("C20|quaternions|differ-from-trajectory|%s" % cls, dict(case, k=k, got=qk, want=Q[k]))
        want_a = Rk.T @ GREF
        want_m = Rk.T @ MREF
        if norm_mag:
            want_m = want_m / np.linalg.norm(want_m)
        if not maxdiff(S.accelerometers[k], want_a) <= 1e-12 * 10:
            t.fail("C20|accelerometers|not-reference-in-body-frame|%s" % cls, dict(case, k=k, got=S.accelerometers[k], want=want_a))
        if not maxdiff(S.magnetometers[k], want_m) <= 1e-12 * (1.0 if norm_mag else 5e4):
            t.fail("C20|magnetometers|not-reference-in-body-frame|%s" % cls, dict(case, k=k, got=S.magnetometers[k], want=want_m))
        # the two other magnetometer arrays the object publishes: the same field in the ENU convention (north/east swapped, down negated)
        # and the unit dip-only reference the object reports; with the normalised option every one of them has unit rows
        for att, refv in (("magnetometers_enu", np.array([MREF[1], MREF[0], -MREF[2]], dtype=float)),
                          ("magnetometers_nd", np.asarray(getattr(S, "reference_magnetic_vector_nd", np.full(3, np.nan)), dtype=float))):
            if not hasattr(S, att):
                continue
            w_ = Rk.T @ refv
            scale_ = 1.0 if (norm_mag or att == "magnetometers_nd") else 5e4
            if norm_mag:
                w_ = w_ / np.linalg.norm(w_)
            g_ = np.asarray(getattr(S, att)[k], dtype=float)
            if not maxdiff(g_, w_) <= 1e-12 * scale_:
                t.fail("C20|%s|not-reference-in-body-frame|%s" % (att, cls), dict(case, k=k, got=g_, want=w_))
        # angular positions describe the same attitude
        from ahrs.common.quaternion import Quaternion
        qa = np.asarray(Quaternion(rpy=np.asarray(S.ang_pos[k], dtype=float)), dtype=float)
        if not min(maxdiff(qa, Q[k]), maxdiff(qa, -Q[k])) <= 1e-9:
            t.fail("C20|ang_pos|differ-from-trajectory|%s" % cls, dict(case, k=k, got=S.ang_pos[k]))
    # gyroscopes - bias = the generator's rate: 0 for the first sample, then 2 f vec(r)/|r|
    unit = (180.0 / math.pi) if in_deg else 1.0
    rate = 2.0 * freq * np.array(r[1:], dtype=float) / math.sqrt(sum(c * c for c in r)) * unit
    corrected = np.asarray(S.gyroscopes, dtype=float) - np.asarray(S.biases_gyroscopes, dtype=float)
    want_w = np.vstack([np.zeros(3), np.tile(rate, (n - 1, 1))])
    t.calls += 1
    if not maxdiff(corrected, want_w) <= 1e-9 * max(1.0, np.max(np.abs(rate))):
        t.fail("C20|gyroscopes|bias-corrected-rate-differs|%s" % cls, dict(case, got=corrected[:3], want=want_w[:3], bias=S.biases_gyroscopes))
    # the angular velocities the object publishes (rad/s, whatever the unit of the gyroscope output) are that same rate
    if hasattr(S, "ang_vel"):
        t.calls += 1
        av = np.asarray(S.ang_vel, dtype=float)
        want_av = want_w / unit
        if av.shape != want_av.shape or not maxdiff(av, want_av) <= 1e-9 * max(1.0, np.max(np.abs(want_av))):
            t.fail("C20|ang_vel|differs-from-the-generator's-rate|%s" % cls, dict(case, got=av[:3], want=want_av[:3]))
    # integrating the bias-corrected rates from the first attitude reproduces the trajectory
    w = corrected / unit
    ar = F.AngularRate(Dt=1.0 / freq)
    q = Q[0].copy()
    worst = 0.0
    for k in range(1, n):
        q = np.asarray(ar.update(q, w[k], method="closed"), dtype=float)
        worst = max(worst, min(maxdiff(q, Q[k]), maxdiff(q, -Q[k])))
    theta = 2.0 * math.atan2(math.sqrt(sum(c * c for c in r[1:])), abs(r[0]))
    t.calls += n
    if not worst <= n * theta ** 3 / 12.0 + 1e-9:
        t.fail("C20|gyroscopes|do-not-integrate-back-to-trajectory|%s" % cls, dict(case, err=worst, bound=n * theta ** 3 / 12.0))


def check_random(t, n, seed_tag):
    """random trajectory route: the outputs must be mutually consistent"""
    kw = dict(gyr_noise=0.0, acc_noise=0.0, mag_noise=0.0)
    S = Sensors(num_samples=n, **kw)
    t.calls += 1
    t.keys.add(("random", n, seed_tag))
    R = np.asarray(S.rotations, dtype=float)
    A = np.asarray(S.accelerometers, dtype=float)
    M = np.asarray(S.magnetometers, dtype=float)
    g = np.asarray(S.reference_gravitational_vector, dtype=float)
    h = np.asarray(S.reference_magnetic_vector, dtype=float)
    if len(A) != n:
        t.fail("C20|Sensors(num_samples=)|sample-count", {"n": n, "got": len(A)})
        return
    da = max(maxdiff(A[k], R[k].T @ g) for k in range(n))
    dm = max(maxdiff(M[k], R[k].T @ h) for k in range(n))
    if not (da <= 1e-11 and dm <= 1e-7):
        t.fail("C20|Sensors(num_samples=)|samples-not-reference-in-body-frame", {"n": n, "acc": da, "mag": dm})
    RQ = np.asarray(QuaternionArray(np.asarray(S.quaternions, dtype=float)).to_DCM(), dtype=float)
    if not maxdiff(RQ, R) <= 1e-12:
        t.fail("C20|Sensors(num_samples=)|rotations-vs-quaternions", {"n": n})
    # default (non-zero) noise: the applied noise has the reported standard deviation
    S2 = Sensors(num_samples=1500)
    A2 = np.asarray(S2.accelerometers) - np.array([r.T @ np.asarray(S2.reference_gravitational_vector) for r in np.asarray(S2.rotations)])
    sd = float(np.std(A2))
    if not abs(sd - float(S2.acc_noise)) <= 0.1 * float(S2.acc_noise):
        t.fail("C20|Sensors|acc_noise-attribute-not-the-applied-level", {"std": sd, "reported": float(S2.acc_noise)})
    M2 = np.asarray(S2.magnetometers) - np.array([r.T @ np.asarray(S2.reference_magnetic_vector) for r in np.asarray(S2.rotations)])
    sdm = float(np.std(M2))
    if not abs(sdm - float(S2.mag_noise)) <= 0.1 * float(S2.mag_noise):
        t.fail("C20|Sensors|mag_noise-attribute-not-the-applied-level", {"std": sdm, "reported": float(S2.mag_noise)})
    for lvl in (0.0, 1.0, 250.0):
        S3 = Sensors(num_samples=1000, mag_noise=lvl, acc_noise=0.25 * (lvl > 0))
        M3 = np.asarray(S3.magnetometers) - np.array([r.T @ np.asarray(S3.reference_magnetic_vector) for r in np.asarray(S3.rotations)])
        sd3 = float(np.std(M3))
        t.calls += 1
        if float(S3.mag_noise) != lvl or not abs(sd3 - lvl) <= 0.1 * lvl + 1e-9:
            t.fail("C20|Sensors|requested-mag_noise-not-applied", {"requested": lvl, "attribute": float(S3.mag_noise), "std": sd3})


def check_noise_levels(t, seed_tag):
    """the noise that is applied has the reported standard deviation: per axis (a level may be a 3-vector, also with zero entries),
    for every sensor, at sampling rates other than the default, in degrees and radians"""
    n = 4000
    for tag, kw in (("per-axis gyr [0,0,2]", {"gyr_noise": np.array([0.0, 0.0, 2.0])}),
                    ("per-axis acc [0.3,0,0.1]", {"acc_noise": np.array([0.3, 0.0, 0.1])}),
                    ("per-axis mag [0,50,120]", {"mag_noise": np.array([0.0, 50.0, 120.0])}),
                    ("scalar levels at 400 Hz", {"gyr_noise": 0.8, "acc_noise": 0.2, "mag_noise": 40.0, "freq": 400.0}),
                    ("scalar levels at 25 Hz, degrees", {"gyr_noise": 0.5, "acc_noise": 0.1, "mag_noise": 90.0, "freq": 25.0, "in_degrees": True}),
                    # every level left to its default, with the caller's own reference vectors (unit gravity, a unit field): whatever the
                    # defaults are, the attributes report what was applied
                    ("default levels, unit references", {"reference_gravitational_vector": np.array([0.0, 0.0, 1.0]), "reference_magnetic_vector": np.array([0.6, 0.0, 0.8])}),
                    ("default levels, default references", {}),
                    # a sampling rate below 1 Hz (slow logging): the published rates and the gyroscopes are per second all the same
                    ("scalar levels at 0.5 Hz", {"gyr_noise": 0.2, "acc_noise": 0.2, "mag_noise": 40.0, "freq": 0.5})):
        t.calls += 1
        t.keys.add(("noise-levels", tag, seed_tag))
        o = core.outcome(lambda: Sensors(num_samples=n, **kw))
        if o[0] != "ok":
            t.fail("C20|Sensors(%s)|raises-%s" % (tag, o[1]), {"options": kw, "err": o[2]})
            continue
        S = o[1]
        R = np.asarray(S.rotations, dtype=float)
        unit = 1.0 if kw.get("in_degrees") else math.pi / 180.0        # the gyroscope noise level is given in deg/s and converted with the samples
        clean = {"acc": np.array([r.T @ np.asarray(S.reference_gravitational_vector, dtype=float) for r in R]),
                 "mag": np.array([r.T @ np.asarray(S.reference_magnetic_vector, dtype=float) for r in R]),
                 "gyr": np.asarray(S.ang_vel, dtype=float) * (180.0 / math.pi) * unit + np.asarray(S.biases_gyroscopes, dtype=float)}
        got = {"acc": np.asarray(S.accelerometers, dtype=float), "mag": np.asarray(S.magnetometers, dtype=float), "gyr": np.asarray(S.gyroscopes, dtype=float)}
        for sensor, att in (("gyr", "gyr_noise"), ("acc", "acc_noise"), ("mag", "mag_noise")):
            rep = np.broadcast_to(np.asarray(getattr(S, att), dtype=float), (3,)) * (unit if sensor == "gyr" else 1.0)
            asked = kw.get(att)
            if asked is not None and not np.array_equal(np.broadcast_to(np.asarray(asked, dtype=float), (3,)), np.broadcast_to(np.asarray(getattr(S, att), dtype=float), (3,))):
                t.fail("C20|Sensors(%s)|%s-attribute-differs-from-request" % (tag, att), {"options": kw, "attribute": getattr(S, att)})
            sd = np.std(got[sensor] - clean[sensor], axis=0)
            # 4000 samples: the sample standard deviation is within 5 sigma/sqrt(2n) ~ 6 % of the level; a zero level means exact samples
            if not np.all(np.abs(sd - rep) <= 0.08 * rep + 1e-9 * (1.0 + np.max(np.abs(clean[sensor])))):
                t.fail("C20|Sensors(%s)|%s-not-the-applied-level" % (tag, att), {"options": kw, "reported": rep, "applied_std": sd})


def check_random_options(t, n, seed_tag):
    """random trajectory route with its options (degrees, pinned yaw, span, rate): all outputs describe ONE trajectory, and the
    bias-corrected gyroscopes integrate from the first attitude back to it"""
    for tag, kw in (("plain", {}), ("in_degrees", {"in_degrees": True}), ("yaw=0", {"yaw": 0.0}), ("yaw=30,in_degrees", {"yaw": 30.0, "in_degrees": True}),
                    ("yaw=-120,50Hz", {"yaw": -120.0, "freq": 50.0}), ("span", {"span": (-0.5, 0.5)}), ("normalized_mag,yaw=75", {"normalized_mag": True, "yaw": 75.0}),
                    ("0.5Hz", {"freq": 0.5}), ("0.8Hz,in_degrees", {"freq": 0.8, "in_degrees": True})):
        t.calls += 1
        t.keys.add(("random-options", n, tag, seed_tag))
        o = core.outcome(lambda: Sensors(num_samples=n, gyr_noise=0.0, acc_noise=0.0, mag_noise=0.0, **kw))
        if o[0] != "ok":
            t.fail("C20|Sensors(num_samples=, %s)|raises-%s" % (tag, o[1]), {"n": n, "options": kw, "err": o[2]})
            continue
        S = o[1]
        Q = np.asarray(S.quaternions, dtype=float)
        R = np.asarray(S.rotations, dtype=float)
        g = np.asarray(S.reference_gravitational_vector, dtype=float)
        h = np.asarray(S.reference_magnetic_vector, dtype=float)
        M = np.asarray(S.magnetometers, dtype=float)
        wantM = np.array([R[k].T @ h for k in range(n)])
        if kw.get("normalized_mag"):
            wantM = wantM / np.linalg.norm(wantM, axis=1)[:, None]
        da = max(maxdiff(S.accelerometers[k], R[k].T @ g) for k in range(n))
        dm = maxdiff(M, wantM)
        if not (da <= 1e-11 and dm <= (1e-12 if kw.get("normalized_mag") else 1e-7)):
            t.fail("C20|Sensors(num_samples=, %s)|samples-not-reference-in-body-frame" % tag, {"n": n, "options": kw, "acc": da, "mag": dm})
        if "yaw" in kw:
            yaw = np.asarray(S.ang_pos, dtype=float)[:, 2]
            if not maxdiff(yaw, np.full(n, math.radians(kw["yaw"]))) <= 1e-12:
                t.fail("C20|Sensors(num_samples=, %s)|yaw-not-pinned" % tag, {"n": n, "options": kw})
        for k in (0, n // 2, n - 1):
            from ahrs.common.quaternion import Quaternion
            qa = np.asarray(Quaternion(rpy=np.asarray(S.ang_pos[k], dtype=float)), dtype=float)
            if not min(maxdiff(qa, Q[k]), maxdiff(qa, -Q[k])) <= 1e-9:
                t.fail("C20|Sensors(num_samples=, %s)|ang_pos-vs-quaternions" % tag, {"n": n, "options": kw, "k": k})
        unit = (180.0 / math.pi) if kw.get("in_degrees") else 1.0
        w = (np.asarray(S.gyroscopes, dtype=float) - np.asarray(S.biases_gyroscopes, dtype=float)) / unit
        ar = F.AngularRate(Dt=1.0 / float(S.frequency))
        q = Q[0].copy()
        worst, bound = 0.0, 1e-9
        for k in range(1, n):
            q = np.asarray(ar.update(q, w[k], method="closed"), dtype=float)
            c = min(1.0, abs(float(Q[k - 1] @ Q[k])))
            bound += (2.0 * math.acos(c)) ** 3 / 12.0
            worst = max(worst, min(maxdiff(q, Q[k]), maxdiff(q, -Q[k])))
        t.resid("random-route-integration", worst)
        if not worst <= bound:
            t.fail("C20|Sensors(num_samples=, %s)|gyroscopes-do-not-integrate-back-to-trajectory" % tag, {"n": n, "options": kw, "err": worst, "bound": bound})


def replay_cases(recs, deep=False):
    t = Tally()
    for i, r in enumerate(recs):
        for n, freq in ((10, 100.0), (50, 50.0)) + (((23, 400.0), (120, 10.0)) if deep else ()):
            for ref in (range(len(GREFS)) if deep else (None,)):
                for opts in (range(4) if deep else (i,)):
                    check_given(t, r["q0"], r["r"], n, freq, bool(opts % 2), bool((opts // 2) % 2), "grid", ref=ref)
        if len(t.samples) < 2:
            t.samples.append(r)
    return t


def realistic(seed):
    t = Tally()
    # small step angles (bounded rate) via the bigint mirror, longer trajectories, other sampling rates
    for q0, r, n, freq in (((3, 1, -2, 1), (400, 1, -2, 2), 200, 100.0), ((1, 0, 0, 0), (1000, 3, 0, 4), 200, 25.0), ((1, 2, 2, -3), (250, 0, 1, 0), 120, 200.0),
                           ((0, 1, 1, 0), (5000, -1, 1, 1), 50, 10.0), ((2, -1, 0, 3), (90, 1, 1, 0), 60, 400.0),
                           # a slow pitch-up from 80 to 88.7 degrees (steep, not vertical) and a pitch-down towards -89
                           ((56, 0, 47, 0), (1000, 0, 1, 0), 76, 100.0), ((56, 0, -47, 0), (1500, 0, -1, 0), 118, 50.0)):
        for in_deg in (False, True):
            check_given(t, list(q0), list(r), n, freq, in_deg, False, "small-step")
    check_given(t, [3, 1, -2, 1], [400, 1, -2, 2], 40, 100.0, False, True, "small-step")
    for n in (10, 50, 200):
        check_random(t, n, seed)
    for n in (60, 300):
        check_random_options(t, n, seed)
    check_noise_levels(t, seed)
    return t


def run(chk):
    chk.rule = ("(q0, r) trajectories emitted by TLC x lengths {10, 50} x sampling rates x in_degrees x normalized_mag, realistic small-step "
                "trajectories (lengths to 200, rates 10..400 Hz) via the bigint mirror, and the random-trajectory route at lengths 10/50/200 with "
                "zero, default and explicit noise levels and the route's options (degrees, pinned yaw, span, rate, normalised magnetometer); gravity / "
                "magnetic references with horizontal components; thorough = every trajectory x 4 reference sets x 4 option pairs x 4 (length, rate) "
                "and 12 repetitions of the random part; distinct = distinct (trajectory, options); none trivial")
    chk.assume("zero noise requested => samples equal R_k^T ref within 1e-12 relative; bias-corrected gyroscopes equal the generator's first-order "
               "rate within 1e-9; integration back within N theta^3/12; noise standard deviations within 10 % of the reported attribute")
    res = tlc.run_tlc("MC_SyntheticSensors", core.spec_cfg("MC_SyntheticSensors"), timeout=600)
    chk.add_tlc("SyntheticSensors[starts x steps x references]", res)
    if res.violated:
        chk.fail("C20|spec|%s" % res.violated, {"tlc": res.output[-2000:]})
    deep = chk.tier != "quick"
    core.merge(chk, [replay_cases(sorted(res.out_records, key=lambda r: (r["q0"], r["r"])), deep=deep)])
    # the random route draws from the module's own generator: every repetition is another set of trajectories
    core.merge(chk, [realistic(chk.seed + k) for k in range(12 if deep else 1)])


def replay(chk, body):
    run(chk)
