"""C16 -- the ellipsoid gravity model satisfies the closed-form level-ellipsoid identities.

Specification: spec/Ellipsoid.tla -- exact rational derived constants (b, e^2, e'^2, polar
curvature radius, mean radius) with their defining identities, the Somigliana coefficients at
Pythagorean latitudes, and the rotating-sphere limit shown to satisfy Pizzetti's theorem
exactly; all checked by TLC on the parameter grid it emits.  The harness scales each abstract
parameter set to physical units (a = A x 10^k m), mirrors the rationals with fractions.Fraction
for flattenings that do not fit 32 bits (1e-6, 1e-4, 1/298.257...), and checks the relations."""
import math
from fractions import Fraction
import numpy as np

from .. import core, tlc
from ..core import Tally
from ahrs.utils.geodesy import ReferenceEllipsoid
from ahrs.utils.wgs84 import WGS
from ahrs.common import constants as K

PYTH = [(1, 0, 1), (0, 1, 1), (3, 4, 5), (4, 3, 5), (5, 12, 13), (12, 5, 13), (3, -4, 5), (8, 15, 17), (15, -8, 17), (0, -1, 1)]


def check_ellipsoid(t, a, f, gm, w, cls, fexact=None):
    """a, gm, w floats; f float; fexact Fraction or None"""
    case = {"a": a, "f": f, "GM": gm, "w": w}
    t.keys.add((cls, a, f, gm, w))
    try:
        E = ReferenceEllipsoid(a, f, gm, w)
    except Exception as e:  # noqa
        t.fail("C16|constructor|raises-%s|%s" % (type(e).__name__, cls), dict(case, err=str(e)[:200]))
        return
    t.calls += 1
    # a second, different ellipsoid lives next to this one and is asked first (nothing of it may show in the answers below)
    try:
        D = ReferenceEllipsoid(a * 1.7, min(0.19, 0.5 * f + 0.01), gm * 0.3, w * 0.5)
        D.normal_gravity(0.0), D.normal_gravity(90.0, 10.0), D.equatorial_normal_gravity, D.polar_normal_gravity
    except Exception:  # noqa
        D = None
    b = a * (1 - f)
    # derived constants: defining identities (exact rationals where f is one)
    fr = fexact if fexact is not None else Fraction(f)
    ar = Fraction(a)
    br = ar * (1 - fr)
    exact = {"b": br, "first_eccentricity_squared": 2 * fr - fr * fr, "second_eccentricity_squared": (ar * ar - br * br) / (br * br),
             "aspect_ratio": br / ar, "curvature_polar_radius": ar * ar / br, "arithmetic_mean_radius": (2 * ar + br) / 3}
    for name, val in exact.items():
        got = float(getattr(E, name))
        want = float(val)
        t.calls += 1
        if not abs(got - want) <= 1e-12 * max(abs(want), 1e-300) + (1e-13 if name.endswith("squared") else 0.0):
            t.fail("C16|%s|defining-identity|%s" % (name, cls), dict(case, got=got, want=want))
    le = float(E.linear_eccentricity)
    if not abs(le * le - float(ar * ar - br * br)) <= 1e-9 * a * a * max(f, 1e-12) + 1e-20 * a * a:
        t.fail("C16|linear_eccentricity|defining-identity|%s" % cls, dict(case, got=le))
    m = w * w * a * a * b / gm
    if not abs(float(E.normal_gravity_constant) - m) <= 1e-13 * max(m, 1e-300):
        t.fail("C16|normal_gravity_constant|defining-identity|%s" % cls, dict(case))
    ge = E.equatorial_normal_gravity
    gp = E.polar_normal_gravity
    t.calls += 2
    if ge is None or gp is None or not (np.isfinite(ge) and np.isfinite(gp)):
        t.fail("C16|normal-gravity|not-finite|%s" % cls, dict(case, ge=ge, gp=gp))
        return
    ge, gp = float(ge), float(gp)
    # the same body through the WGS class (the README's recipe for other planets): the same ellipsoid
    t.calls += 1
    ow = core.outcome(lambda: (lambda W: (float(W.b), float(W.first_eccentricity_squared), float(W.equatorial_normal_gravity), float(W.polar_normal_gravity),
                                          float(W.normal_gravity(38.5, 0.001 * a)), float(W.linear_eccentricity), float(W.normal_gravity_potential),
                                          float(W.second_eccentricity_squared), float(W.normal_gravity_constant)))(WGS(a=a, f=f, GM=gm, w=w)))
    if ow[0] != "ok":
        t.fail("C16|WGS(a, f, GM, w)|raises-%s|%s" % (ow[1], cls), dict(case, err=ow[2]))
    else:
        want_w = (float(E.b), float(E.first_eccentricity_squared), ge, gp, float(E.normal_gravity(38.5, 0.001 * a)), float(E.linear_eccentricity),
                  float(E.normal_gravity_potential), float(E.second_eccentricity_squared), float(E.normal_gravity_constant))
        if not all(abs(x - y) <= 1e-15 * max(abs(y), 1e-300) for x, y in zip(ow[1], want_w)):
            t.fail("C16|WGS(a, f, GM, w)|differs-from-ReferenceEllipsoid|%s" % cls, dict(case, wgs=ow[1], reference_ellipsoid=want_w))
    g0 = gm / (a * a)
    # Pizzetti: 2 ge/a + gp/b = 3 GM/(a^2 b) - 2 w^2   (relative to the size of its terms)
    lhs = 2 * ge / a + gp / b
    rhs = 3 * gm / (a * a * b) - 2 * w * w
    # q0 = ((1 + 3/e'^2) atan e' - 3/e')/2 cancels like eps/e'^3: allow that conditioning for small f
    es = math.sqrt(max(float(exact["second_eccentricity_squared"]), 0.0))
    cond = 1e-12 + (4e-16 / es ** 3 * m if es > 0 else 0.0)
    if not abs(lhs - rhs) <= cond * 3 * g0 / a:
        t.fail("C16|pizzetti|residual|%s" % cls, dict(case, lhs=lhs, rhs=rhs, rel=abs(lhs - rhs) / (3 * g0 / a), ge=ge, gp=gp))
    # positivity and closeness to the rotating sphere
    if not (ge > 0 and gp > 0):
        t.fail("C16|normal-gravity|not-positive|%s" % cls, dict(case, ge=ge, gp=gp))
    sphere_ge, sphere_gp = g0 * (1 - 1.5 * m), g0 * (1 + m)
    if f <= 1e-4:
        # the gravity values inherit the cancellation of q0 = O(e'^3) from terms of size 3/e': relative rounding error ~ eps (3/e') / q0
        # ~ 2e-15 / e'^4, entering ge and gp times m (measured against a 60-digit evaluation: 2e-5 at f = 1e-6, m = 0.034)
        cond_g = (3e-15 / es ** 4 * m) if es > 0 else 0.0
        lim = (10 * f + 1e-5 + cond + cond_g) * g0
        if not (abs(ge - sphere_ge) <= lim and abs(gp - sphere_gp) <= lim):
            t.fail("C16|normal-gravity|not-close-to-rotating-sphere|%s" % cls, dict(case, ge=ge, gp=gp, sphere_ge=sphere_ge, sphere_gp=sphere_gp, lim=lim))
    # Somigliana at Pythagorean latitudes, symmetry, end points, decreasing with height
    for (c, s, h) in PYTH:
        latd = math.degrees(math.atan2(s, c))
        A = a * c * c / (h * h)
        B = b * s * s / (h * h)
        C = (a * a * c * c + b * b * s * s) / (h * h)
        want = (A * ge + B * gp) / math.sqrt(C)
        g = float(E.normal_gravity(latd))
        gn = float(E.normal_gravity(-latd))
        t.calls += 2
        if not abs(g - want) <= 1e-12 * want:
            t.fail("C16|normal_gravity|not-somigliana|%s" % cls, dict(case, lat=latd, got=g, want=want))
        if not abs(g - gn) <= 1e-13 * abs(g):
            t.fail("C16|normal_gravity|not-symmetric-in-latitude|%s" % cls, dict(case, lat=latd, got=(g, gn)))
        if not g > 0:
            t.fail("C16|normal_gravity|not-positive|%s" % cls, dict(case, lat=latd, got=g))
        prev = g
        for frac in (1e-6, 1e-4, 1e-3, 2.5e-3, 4e-3, 5e-3):
            gh = float(E.normal_gravity(latd, frac * a))
            t.calls += 1
            if not (0 < gh < prev):
                t.fail("C16|normal_gravity|not-decreasing-with-height|%s" % cls, dict(case, lat=latd, h=frac * a, got=gh, below=prev))
                break
            prev = gh
    # a fine sweep of the whole height range (0 .. 0.5 % of a) at three latitudes: strictly decreasing, step by step
    for latd in (0.0, 38.5, 90.0):
        prev = float(E.normal_gravity(latd))
        for k in range(1, 401):
            hh = 0.005 * a * k / 400.0
            gh = float(E.normal_gravity(latd, hh))
            t.calls += 1
            if not (0 < gh < prev):
                t.fail("C16|normal_gravity|not-decreasing-with-height|%s" % cls, dict(case, lat=latd, h=hh, got=gh, below=prev, note="fine height sweep"))
                break
            prev = gh
            prev = gh
    if not abs(float(E.normal_gravity(0.0)) - ge) <= 1e-13 * ge or not abs(float(E.normal_gravity(90.0)) - gp) <= 1e-12 * gp:
        t.fail("C16|normal_gravity|end-points|%s" % cls, dict(case, g0=float(E.normal_gravity(0.0)), g90=float(E.normal_gravity(90.0)), ge=ge, gp=gp))
    return ge, gp


def replay_cases(recs):
    t = Tally()
    for r in recs:
        for k in (5, 6, 8):
            a = r["a"] * 10.0 ** k
            fr = Fraction(r["f"][0], r["f"][1])
            f = float(fr)
            for gscale in (1.0, 9.8):
                gm = r["gm"] * gscale * a * a / r["a"] ** 2           # GM/a^2 of order 1..25 m/s^2 per unit
                w2 = Fraction(r["w2"][0], r["w2"][1])
                # m = w^2 a^3 (1-f) / GM must stay below 0.05: w^2 = w2 * 0.04 * GM/a^3
                w = math.sqrt(float(w2) * 4.0 * 0.04 * gm / (a ** 3 * max(1 - f, 0.5))) if w2 else 0.0
                cls = "f=0" if f == 0 else "f=%s" % fr
                check_ellipsoid(t, a, f, gm, w, cls, fexact=fr)
        if len(t.samples) < 2:
            t.samples.append(r)
    return t


def extras(seed, n):
    """flattenings that need more than 32 bits (Fraction mirror), continuity in f, the shipped planets"""
    t = Tally()
    rows = {}
    for a in (1e5, 6.378137e6, 7.1492e7, 1e8):
        for g0, mt in ((9.8, 0.0034), (24.8, 0.045), (1.6, 0.0), (3.7, 0.02)):
            gm = g0 * a * a
            prev = None
            for fr in (Fraction(0), Fraction(1, 10 ** 6), Fraction(1, 10 ** 5), Fraction(1, 10 ** 4), Fraction(1, 1000), Fraction(1000000000, 298257223563), Fraction(1, 50), Fraction(1, 5)):
                f = float(fr)
                w = math.sqrt(mt * gm / (a ** 3 * (1 - f)))
                cls = "f=0" if f == 0 else ("f<=1e-4" if f <= 1e-4 else "f=%.3g" % f)
                out = check_ellipsoid(t, a, f, gm, w, cls, fexact=fr)
                if out and prev and f <= 1e-4:
                    # continuity: successive small flattenings stay within (10 f + 1e-5) GM/a^2 of each other
                    lim = (10 * f + 2e-5) * g0
                    if not (abs(out[0] - prev[0]) <= lim and abs(out[1] - prev[1]) <= lim):
                        t.fail("C16|normal-gravity|discontinuous-in-f|%s" % cls, {"a": a, "f": f, "ge": out[0], "gp": out[1], "prev": prev})
                if out:
                    prev = out
    # the planets shipped with the package (spherical ones have f = 0)
    for body in ("EARTH", "MOON", "MERCURY", "VENUS", "MARS", "JUPITER", "SATURN", "URANUS", "NEPTUNE", "PLUTO"):
        a = getattr(K, body + "_EQUATOR_RADIUS")
        gm = getattr(K, body + "_GM")
        w = getattr(K, body + "_ROTATION")
        f = getattr(K, body + "_FLATTENING", None)
        if f is None:
            pr = getattr(K, body + "_POLAR_RADIUS", None)
            f = 0.0 if pr is None else (a - pr) / a
        b = a * (1 - f)
        if w * w * a * a * b / gm >= 0.05 or f > 0.2:
            continue          # outside the property's quantifier (fast rotators)
        check_ellipsoid(t, a, f, gm, w, "planet-%s" % body.lower())        # w as shipped: Venus, Uranus and Pluto rotate backwards (w < 0)
    t.samples.append({"planets": "constants table", "flattenings_via_Fraction_mirror": ["1e-6", "1e-5", "1e-4", "1/298.257223563"]})
    # other geodetic reference systems of the Earth and slightly adjusted WGS 84 parameters: within parts per million of the defaults
    # (anything that recognises "the" WGS 84 ellipsoid with a tolerance takes these for it)
    E_ = (K.EARTH_EQUATOR_RADIUS, K.EARTH_FLATTENING, K.EARTH_GM, K.EARTH_ROTATION)
    for tag, (a_, f_, gm_, w_) in (("grs80", (6378137.0, 1.0 / 298.257222101, 3.986005e14, 7.292115e-5)),
                                   ("wgs72", (6378135.0, 1.0 / 298.26, 3.986008e14, 7.292115147e-5)),
                                   ("pz90", (6378136.0, 1.0 / 298.25784, 3.986004418e14, 7.292115e-5)),
                                   ("iau76", (6378140.0, 1.0 / 298.257, 3.986005e14, 7.292115e-5)),
                                   ("wgs84-GM+5ppm", (E_[0], E_[1], E_[2] * (1 + 5e-6), E_[3])),
                                   ("wgs84-a+1ppm", (E_[0] * (1 + 1e-6), E_[1], E_[2], E_[3])),
                                   ("wgs84-f+3ppm", (E_[0], E_[1] * (1 + 3e-6), E_[2], E_[3])),
                                   ("wgs84-w+50ppm", (E_[0], E_[1], E_[2], E_[3] * (1 + 5e-5)))):
        check_ellipsoid(t, a_, f_, gm_, w_, "near-earth-%s" % tag)
    # WGS defaults
    check_ellipsoid(t, K.EARTH_EQUATOR_RADIUS, K.EARTH_FLATTENING, K.EARTH_GM, K.EARTH_ROTATION, "wgs84")
    W = WGS()
    if not abs(float(W.normal_gravity(50.0, 100.0)) - float(ReferenceEllipsoid(K.EARTH_EQUATOR_RADIUS, K.EARTH_FLATTENING, K.EARTH_GM, K.EARTH_ROTATION).normal_gravity(50.0, 100.0))) <= 1e-15:
        t.fail("C16|WGS|differs-from-ReferenceEllipsoid", {})
    return t


def random_sets(args):
    """seeded parameter sets over the whole quantifier: a in [1e5, 1e8] m, f = 0 or f in [1e-6, 0.2], m < 0.05, GM/a^2 in [0.5, 30]"""
    seed, lo, hi = args
    t = Tally()
    for i in range(lo, hi):
        r = core.rng(seed, "c16-random", i)
        a = 10.0 ** r.uniform(5, 8)
        f = 0.0 if i % 9 == 0 else 10.0 ** r.uniform(-6, math.log10(0.2))
        g0 = 10.0 ** r.uniform(math.log10(0.5), math.log10(30.0))
        mt = 0.0 if i % 7 == 0 else r.uniform(0.0, 0.049)
        gm = g0 * a * a
        w = math.sqrt(mt * gm / (a ** 3 * (1 - f))) * (-1.0 if i % 5 == 2 else 1.0)      # some retrograde rotators
        cls = "f=0" if f == 0 else ("f<=1e-4" if f <= 1e-4 else "random")
        check_ellipsoid(t, a, f, gm, w, cls)
    return t


def run(chk):
    quick = chk.tier == "quick"
    chk.rule = ("parameter sets emitted by TLC (a in {1,2,6} units, f in {0, 1/100, 3/50, 1/10, 1/5}, GM, w^2 classes) x 3 unit decades x 2 "
                "gravity scales, plus Fraction-mirror flattenings (0, 1e-6 .. 1/298.257 .. 1/5) x 4 semi-major axes x 4 (g, m) classes and the "
                "shipped planets, plus seeded random parameter sets over the whole quantifier (320 quick / 48000 thorough); 10 Pythagorean latitudes x 6 heights each; distinct = distinct (class, a, f, GM, w); none trivial")
    chk.assume("algebraic constants 1e-12 relative; Pizzetti residual 1e-12 relative (+ the eps/e'^3 conditioning of q0 for f -> 0); "
               "Somigliana 1e-12; continuity |g(f) - g(0)| <= (10 f + 1e-5 + 3e-15 m / e'^4) GM/a^2 for f <= 1e-4 (the last term is the rounding "
               "noise of the closed form itself at tiny flattening)")
    res = tlc.run_tlc("MC_Ellipsoid", core.spec_cfg("MC_Ellipsoid"), timeout=600)
    chk.add_tlc("Ellipsoid[parameter grid x Pythagorean latitudes]", res)
    if res.violated:
        chk.fail("C16|spec|%s" % res.violated, {"tlc": res.output[-2000:]})
    core.merge(chk, core.pmap(replay_cases, res.out_records))
    core.merge(chk, [extras(chk.seed, 0)])
    n = 320 if quick else 48000
    import multiprocessing as mp
    with mp.get_context("fork").Pool(16) as pool:
        core.merge(chk, pool.map(random_sets, [(chk.seed, k, k + n // 16) for k in range(0, n, n // 16)]))
    chk.exhaustive = True


def replay(chk, body):
    run(chk)
