"""C03 -- every estimator always returns valid attitudes, one per input sample.

Specification: spec/FilterLifecycle.tla -- the configuration catalogue Cfgs (transcribed
from the constructors: class x architecture x frame x representation x mode x gain class
x rate class) and the run machine with invariant OneRowPerSample.  TLC enumerates the
catalogue (231 configurations) and short fault-free histories; the harness builds every
configuration over seeded random histories (magnitudes spanning decades, acc/mag at
least 1 degree apart) and over the exact canonical poses (level at 12 headings, inverted,
each axis vertical; two measurement conventions), and validates the rows.  The observed
(cfg, samples consumed, rows produced, valid) events are validated by TraceLifecycle."""
import math
import numpy as np

from .. import core, tlc
from ..core import Tally, qmul_int
from .. import filters as FL

HEADINGS = [(1, 0), (4, 1), (2, 1), (1, 1), (1, 2), (0, 1), (-1, 2), (-1, 1), (-2, 1), (-4, 1), (3, -1), (1, -1)]
TILTS = {"level": (1, 0, 0, 0), "inverted": (0, 1, 0, 0), "x-up": (1, 0, 1, 0), "x-down": (1, 0, -1, 0), "y-up": (1, 1, 0, 0), "y-down": (1, -1, 0, 0),
         "inverted-y": (0, 0, 1, 0),
         # pure pitch / pure roll sweeps: one body axis stays exactly horizontal (a_y = 0 resp. a_x = 0) while the other two sweep the circle
         "pitched": [(2, 0, 1, 0), (3, 0, 1, 0), (5, 0, 2, 0), (4, 0, -1, 0), (7, 0, 3, 0), (3, 0, -2, 0), (1, 0, 2, 0), (1, 0, -3, 0), (9, 0, 1, 0), (2, 0, 5, 0)],
         "rolled": [(2, 1, 0, 0), (3, 1, 0, 0), (5, 2, 0, 0), (4, -1, 0, 0), (7, 3, 0, 0), (3, -2, 0, 0), (1, 2, 0, 0), (1, -3, 0, 0), (9, 1, 0, 0), (2, 5, 0, 0)]}
HIST_CLASSES = ["random", "decades", "level", "inverted", "x-up", "x-down", "y-up", "y-down", "inverted-y", "pitched", "rolled", "level-then-inverted"]


STREAM_BOTH = {
    "Madgwick": [("IMU", lambda o, q, g, a, m: o.updateIMU(q, g, a)), ("MARG", lambda o, q, g, a, m: o.updateMARG(q, g, a, m))],
    "Mahony": [("IMU", lambda o, q, g, a, m: o.updateIMU(q, g, a)), ("MARG", lambda o, q, g, a, m: o.updateMARG(q, g, a, m))],
    "AQUA": [("IMU", lambda o, q, g, a, m: o.updateIMU(q, g, a)), ("MARG", lambda o, q, g, a, m: o.updateMARG(q, g, a, m))],
    "EKF": [("IMU", lambda o, q, g, a, m: o.update(q, g, a)), ("MARG", lambda o, q, g, a, m: o.update(q, g, a, m))],
}


Q0_OK = ("Madgwick", "Mahony", "EKF", "UKF", "AQUA", "ROLEQ", "Fourati", "AngularRate", "Complementary")


def pose_history(kind, conv, n):
    """exact canonical poses: tilt kind at successive headings (rotation about the vertical), repeated"""
    g = (0, 0, 1) if conv == 0 else (0, 0, -1)
    h = (1, 0, 2) if conv == 0 else (2, 0, -1)
    acc, mag = [], []
    for k in range(n):
        hd = HEADINGS[k % len(HEADINGS)]
        tilt = TILTS[kind] if kind != "level-then-inverted" else (TILTS["level"] if k == 0 else TILTS["inverted"])
        if isinstance(tilt, list):
            tilt = tilt[(k // 2) % len(tilt)]
        u = qmul_int((hd[0], 0, 0, hd[1]), tilt)       # heading about z, then the tilt
        R = core.g_rot(u)
        acc.append(R.T @ np.array(g, dtype=float) * 9.81)
        mag.append(R.T @ np.array(h, dtype=float) / math.sqrt(5) * 48.0)
    return np.array(acc), np.array(mag)


def random_history(rng, n, decades):
    acc, mag = [], []
    for k in range(n):
        while True:
            a = rng.normal(size=3)
            m = rng.normal(size=3)
            c = abs(a @ m) / (np.linalg.norm(a) * np.linalg.norm(m))
            if c < math.cos(math.radians(1.0)):
                break
        sa = 10.0 ** rng.uniform(-3, 3) if decades else 9.81 * rng.uniform(0.5, 2)
        sm = 10.0 ** rng.uniform(-3, 3) if decades else 50.0 * rng.uniform(0.5, 2)
        acc.append(a / np.linalg.norm(a) * sa)
        mag.append(m / np.linalg.norm(m) * sm)
    gyr = rng.normal(size=(n, 3)) * (10.0 ** rng.uniform(-4, 1, size=(n, 1)) if decades else 0.3)
    return gyr, np.array(acc), np.array(mag)


LONG_CLASSES = ("Madgwick", "Mahony", "EKF", "UKF", "AQUA", "ROLEQ", "FKF", "Complementary", "Fourati", "AngularRate")
LONG_N = (12000, 50000)
SINGLE_FRAME = ("Tilt", "TRIAD", "Davenport", "QUEST", "FLAE", "OLEQ", "SAAM", "FAMC", "FQA")


def sweep_history(rng, n):
    """physically INCONSISTENT samples whose accelerometer / magnetometer mutual angle sweeps (1, 179) degrees in n equal steps
    (thin bands of that angle are where closed-form roots change branch)"""
    acc, mag = [], []
    a = rng.normal(size=3)
    a /= np.linalg.norm(a)
    for k in range(n):
        th = math.radians(1.0 + 178.0 * (k + 0.5) / n)
        p = rng.normal(size=3)
        p -= (p @ a) * a
        p /= np.linalg.norm(p)
        acc.append(a * 9.81)
        mag.append((math.cos(th) * a + math.sin(th) * p) * 48.0)
        if k % 97 == 96:
            a = rng.normal(size=3)
            a /= np.linalg.norm(a)
    return rng.normal(size=(n, 3)) * 0.2, np.array(acc), np.array(mag)


def run_cfg(args):
    cfgs, seed, lengths, nseeds = args
    t = Tally()
    t.events = []
    for cfg in cfgs:
        cname = "%s|%s" % (cfg["f"], "|".join(cfg[k] for k in ("arch", "frame", "rep", "mode") if cfg[k] != "-"))
        for hc in HIST_CLASSES + ["angle-sweep"]:
            for n in (lengths if hc != "angle-sweep" else ((3560 if len(lengths) > 2 else 1780) if cfg["f"] in SINGLE_FRAME else 356,)):
                for s in range(nseeds if hc in ("random", "decades") else 2):
                    rng = core.rng(seed, "c03", cname, cfg["gain"], cfg["rate"], hc, n, s)
                    if hc == "angle-sweep":
                        if s > 0:
                            continue
                        gyr, acc, mag = sweep_history(rng, n)
                    elif hc in ("random", "decades"):
                        gyr, acc, mag = random_history(rng, n, hc == "decades")
                    else:
                        acc, mag = pose_history(hc, s, n)
                        gyr = rng.normal(size=(n, 3)) * 1e-3
                    t.calls += 1
                    t.keys.add((cname, cfg["gain"], cfg["rate"], hc, n, s))
                    built = []
                    # every second random history hands the recursive filters an initial attitude that is unit only to a few parts
                    # per million (as read from a log): legal for every constructor, and row 0 must still be a unit quaternion
                    q0 = None
                    if hc in ("random", "decades") and s % 2 == 1 and cfg["f"] in Q0_OK and cfg["rep"] == "quaternion":
                        q0 = rng.normal(size=4)
                        q0 = q0 / np.linalg.norm(q0) * (1.0 + (8e-6 if s % 4 == 1 else -6e-6))
                    o = core.outcome(lambda: (built.append(FL.batch(cfg, gyr, acc, mag, q0=q0)), built[0][1])[1])
                    case = {"cfg": cfg, "history": hc, "n": n, "variant": s, "acc0": acc[0], "mag0": mag[0], "q0": q0}
                    pose = "canonical-pose" if hc not in ("random", "decades", "angle-sweep") else "random"
                    case["pose"] = hc
                    if o[0] != "ok":
                        t.fail("C03|%s|raises-%s|%s" % (cname, o[1], pose), dict(case, err=o[2]))
                        t.events.append({"cfg": cfg, "n": n, "rows": 0, "valid": False})
                        continue
                    bad = FL.validity(cfg, o[1], n)
                    rows = int(np.asarray(o[1]).shape[0]) if np.asarray(o[1]).ndim >= 1 else 0
                    t.events.append({"cfg": cfg, "n": n, "rows": rows, "valid": bad is None})
                    if bad:
                        t.fail("C03|%s|%s|%s" % (cname, bad, pose), dict(case, got=np.asarray(o[1])[:3]))
                    elif n == lengths[0] and cfg["rep"] == "quaternion" and cfg["f"] in STREAM_BOTH:
                        # the same object keeps serving single updates of either sensor combination afterwards
                        obj = built[0][0]
                        qk = np.asarray(o[1], dtype=float)[-1]
                        for arch2, call in STREAM_BOTH[cfg["f"]]:
                            t.calls += 1
                            o2 = core.outcome(lambda: np.asarray(call(obj, qk.copy(), gyr[-1].copy(), acc[-1].copy(), mag[-1].copy()), dtype=float))
                            name2 = "%s then update[%s]" % (cname, arch2)
                            if o2[0] != "ok":
                                t.fail("C03|%s|raises-%s|%s" % (name2, o2[1], pose), dict(case, err=o2[2]))
                            else:
                                b2 = FL.validity(cfg, o2[1].reshape(1, -1) if o2[1].ndim == 1 else o2[1], 1)
                                if b2:
                                    t.fail("C03|%s|%s|%s" % (name2, b2, pose), dict(case, got=o2[1]))
        # single-frame estimators that take a magnetic reference: the same exact canonical poses with the reference the data were made
        # from (the measured horizontal field is then exactly parallel / anti-parallel / perpendicular to the reference one at the
        # headings 0, 180 and +-90 degrees: exact zeros in the heading formulas)
        if cfg["f"] in ("FQA", "TRIAD", "Davenport", "QUEST", "FLAE", "OLEQ") and cfg["arch"] == "ACCMAG":
            for hc in HIST_CLASSES[2:]:
                for s_ in (0, 1):
                    gv = np.array((0, 0, 1) if s_ == 0 else (0, 0, -1), dtype=float)
                    hv = np.array((1, 0, 2) if s_ == 0 else (2, 0, -1), dtype=float) / math.sqrt(5)
                    dip = math.degrees(math.atan2(hv[2], hv[0]))
                    extra = {"FQA": {"mag_ref": hv * 48.0}, "TRIAD": {"v1": gv, "v2": hv}, "OLEQ": {"magnetic_ref": hv}}.get(cfg["f"], {"magnetic_dip": dip})
                    n_ = lengths[0]
                    acc, mag = pose_history(hc, s_, n_)
                    t.calls += 1
                    t.keys.add((cname, "reference-of-the-data", hc, s_))
                    o = core.outcome(lambda: FL.batch(cfg, None, acc, mag, extra=extra)[1])
                    case = {"cfg": cfg, "history": hc, "n": n_, "variant": s_, "acc0": acc[0], "mag0": mag[0], "reference": extra}
                    if o[0] != "ok":
                        t.fail("C03|%s[reference of the data]|raises-%s|canonical-pose" % (cname, o[1]), dict(case, err=o[2]))
                        continue
                    bad = FL.validity(cfg, o[1], n_)
                    if bad:
                        t.fail("C03|%s[reference of the data]|%s|canonical-pose" % (cname, bad), dict(case, got=np.asarray(o[1])[:3]))
        # single-frame estimators, one sample at a time: every row of the canonical-pose histories through the one-sample constructor
        # (1-D inputs) and through estimate() of a data-less object, in the configured representation
        if cfg["f"] in SINGLE_FRAME and cfg["arch"] in ("ACCMAG", "ACC"):
            import inspect as _insp
            for hc in HIST_CLASSES[2:]:
                acc, mag = pose_history(hc, 0, 12)
                for k_ in range(12):
                    a1, m1 = acc[k_], (mag[k_] if cfg["arch"] == "ACCMAG" else None)
                    routes1 = [("one-sample constructor", lambda: FL.batch(cfg, None, a1, m1)[1])]
                    try:
                        obj0 = FL.create(cfg)
                        est = getattr(obj0, "estimate", None)
                    except Exception:
                        est = None
                    if est is not None:
                        ek = {"representation": cfg["rep"]} if "representation" in _insp.signature(est).parameters else {}
                        if cfg["f"] == "FLAE":
                            ek["method"] = cfg["mode"]
                        if "representation" in _insp.signature(est).parameters or cfg["rep"] == "quaternion":
                            routes1.append(("estimate()", (lambda est=est, ek=ek: est(a1.copy(), m1.copy(), **ek)) if m1 is not None else (lambda est=est, ek=ek: est(a1.copy(), **ek))))
                    for rname, fn1 in routes1:
                        t.calls += 1
                        t.keys.add((cname, rname, hc, k_))
                        o = core.outcome(fn1)
                        case = {"cfg": cfg, "history": hc, "row": k_, "acc": a1, "mag": m1, "route": rname}
                        if o[0] != "ok":
                            t.fail("C03|%s|%s|raises-%s|canonical-pose" % (cname, rname, o[1]), dict(case, err=o[2]))
                            continue
                        if o[1] is None:
                            t.fail("C03|%s|%s|returns-None|canonical-pose" % (cname, rname), case)
                            continue
                        arr = np.asarray(o[1])
                        bad = FL.validity(cfg, arr.reshape((1,) + arr.shape) if arr.ndim in (1, 2) and arr.shape in ((4,), (3,), (3, 3)) else arr, 1)
                        if bad:
                            t.fail("C03|%s|%s|%s|canonical-pose" % (cname, rname, bad), dict(case, got=arr))
        # ... and the rows of the angle sweep next to its ends (accelerometer and magnetometer 1 to 5 degrees from parallel and from
        # anti-parallel: the boundary of the property's domain), one sample at a time
        if cfg["f"] in SINGLE_FRAME and cfg["arch"] == "ACCMAG":
            import inspect as _insp
            rng_ = core.rng(seed, "c03-sweep-1", cname)
            _, acc, mag = sweep_history(rng_, 1780)
            for k_ in list(range(0, 40, 2)) + list(range(1741, 1780, 2)):
                a1, m1 = acc[k_], mag[k_]
                routes1 = [("one-sample constructor", lambda: FL.batch(cfg, None, a1, m1)[1])]
                try:
                    est = getattr(FL.create(cfg), "estimate", None)
                except Exception:
                    est = None
                if est is not None and ("representation" in _insp.signature(est).parameters or cfg["rep"] == "quaternion"):
                    ek = {"representation": cfg["rep"]} if "representation" in _insp.signature(est).parameters else {}
                    if cfg["f"] == "FLAE":
                        ek["method"] = cfg["mode"]
                    routes1.append(("estimate()", lambda est=est, ek=ek: est(a1.copy(), m1.copy(), **ek)))
                for rname, fn1 in routes1:
                    t.calls += 1
                    t.keys.add((cname, rname, "sweep-ends", k_))
                    o = core.outcome(fn1)
                    case = {"cfg": cfg, "history": "angle-sweep", "row": k_, "acc": a1, "mag": m1, "route": rname,
                            "mutual_angle_deg": 1.0 + 178.0 * (k_ + 0.5) / 1780}
                    if o[0] != "ok":
                        t.fail("C03|%s|%s|raises-%s|random" % (cname, rname, o[1]), dict(case, err=o[2]))
                        continue
                    if o[1] is None:
                        t.fail("C03|%s|%s|returns-None|random" % (cname, rname), case)
                        continue
                    arr = np.asarray(o[1])
                    bad = FL.validity(cfg, arr.reshape((1,) + arr.shape) if arr.shape in ((4,), (3,), (3, 3)) else arr, 1)
                    if bad:
                        t.fail("C03|%s|%s|%s|random" % (cname, rname, bad), dict(case, got=arr))
        # one LONG history per recursive class and sensor combination (default gain and rate, quaternion output): "for any history
        # length"; a recursion rewritten in closed form (powers of the gain, cumulative sums) under- or overflows only after thousands of rows
        if cfg["f"] in LONG_CLASSES and cfg["gain"] == "default" and cfg["rate"] == "100Hz" and cfg["rep"] == "quaternion" and cfg["mode"] in ("-", "fixed", "closed"):
            n_ = LONG_N[0 if len(lengths) <= 2 else 1] // (4 if cfg["f"] in ("UKF", "EKF", "FKF") else 1)
            rng = core.rng(seed, "c03-long", cname)
            gyr, acc, mag = random_history(rng, 500, False)
            reps = (n_ + 499) // 500
            gyr, acc, mag = (np.tile(x, (reps, 1))[:n_] for x in (gyr, acc, mag))
            t.calls += 1
            t.keys.add((cname, "long", n_))
            o = core.outcome(lambda: FL.batch(cfg, gyr, acc, mag)[1])
            case = {"cfg": cfg, "history": "long", "n": n_}
            if o[0] != "ok":
                t.fail("C03|%s|raises-%s|long-history" % (cname, o[1]), dict(case, err=o[2]))
            else:
                bad = FL.validity(cfg, o[1], n_)
                if bad:
                    rows_ = np.asarray(o[1], dtype=float)
                    first_bad = int(np.argmax(~np.isfinite(rows_).all(axis=1))) if rows_.ndim == 2 else -1
                    t.fail("C03|%s|%s|long-history" % (cname, bad), dict(case, first_bad_row=first_bad))
        if len(t.samples) < 2:
            t.samples.append({"cfg": cfg, "history_classes": HIST_CLASSES, "lengths": lengths})
    return t


def run(chk):
    quick = chk.tier == "quick"
    chk.rule = ("every configuration of the TLC-enumerated catalogue x 13 history classes (seeded random, magnitudes over decades, a sweep of the acc/mag mutual angle over (1, 179) degrees in 0.1 / 0.05 degree steps, 7 "
                "exact canonical pose families and pure-pitch / pure-roll sweeps at 12 headings in 2 measurement conventions; recursive "
                "filters additionally serve one IMU and one MARG update on the batch-built object) x lengths; distinct = distinct "
                "(configuration, history class, length, variant); all non-trivial (no identity-only histories)")
    chk.assume("valid = one row per sample, real dtype, finite, |q| = 1 +- 1e-9 (or R R^T = I, det = 1 +- 1e-9 / finite angle triple)")
    res = tlc.run_tlc("MC_FilterLifecycle", core.spec_cfg("MC_FilterLifecycle_catalogue"), timeout=900)
    chk.add_tlc("FilterLifecycle[catalogue, fault-free histories <= 3]", res)
    if res.violated:
        chk.fail("C03|spec|%s" % res.violated, {"tlc": res.output[-2000:]})
    cfgs = res.out_records
    if quick:
        # every (class, architecture, frame, representation, mode) at default gain/rate, and a third of the gain/rate variants
        cfgs = [c for i, c in enumerate(sorted(cfgs, key=lambda c: core.json.dumps(c, sort_keys=True)))
                if (c["gain"] == "default" and c["rate"] == "100Hz") or i % 3 == chk.seed % 3]
    lengths = (2, 17) if quick else (2, 3, 17, 120)
    nseeds = 2 if quick else 12
    chunks = [(cfgs[i::32], chk.seed, lengths, nseeds) for i in range(32)]
    import multiprocessing as mp
    with mp.get_context("fork").Pool(16) as pool:
        tallies = pool.map(run_cfg, chunks)
    core.merge(chk, tallies)
    # code -> spec: (cfg, n, rows, valid) events against the lifecycle machine
    events = [e for tl in tallies for e in tl.events]
    open_sigs = set(s for s, k in chk.known.items() if k.get("status") == "open")
    good = [e for e in events if e["valid"] and e["rows"] == e["n"]]
    traces = [{"events": good[i:i + 40]} for i in range(0, min(len(good), 8000), 40)]
    core.validate_traces(chk, "TraceLifecycle", core.spec_cfg("TraceLifecycle"), traces, "lifecycle",
                         lambda tr, i: "C03|trace-rejected|%s" % tr["events"][min(i, len(tr["events"])) - 1]["cfg"]["f"])


def replay(chk, body):
    run(chk)
