"""C19 -- public functions never modify the caller's arrays and are repeatable.

Specification: spec/CallerMemory.tla -- caller-owned buffers with content ids; Call(f, args,
res) leaves mem unchanged and its result is a function of (f, argument contents)
(invariant Repeatable, action property CallsDoNotWrite), model-checked by TLC.  The
catalogue of public callables is built at run time by introspection of the ahrs modules and
classes, joined with a parameter-name -> argument generator table (so a new function is
covered automatically; callables whose arguments cannot be synthesised are counted as
uncovered).  Every call is logged with the SHA-1 content ids of all array arguments before
and after and of the result, twice with equal contents; TLC validates the log
(TraceCallerMemory)."""
import hashlib
import inspect
import math
import numpy as np

from .. import core, tlc
from ..core import Tally, g_unit

import ahrs
from ahrs.common import orientation as ORI, quaternion as QUA, dcm as DCMM, frames as FRM, mathfuncs as MFN, geometry as GEO
from ahrs.utils import metrics as MET, core as UCORE
from ahrs import filters as F

INPLACE_OK = {"normalize", "remove_jumps"}
SKIP = {"random_attitudes", "q_random", "random", "plot", "plot_sensors", "plot_quaternions"}


def cid(x):
    """content id of a value"""
    if isinstance(x, np.ndarray) and (hasattr(x, "A") or hasattr(x, "array")):
        # a Quaternion / QuaternionArray / DCM object: its own buffer and the array attribute its methods read
        extra = getattr(x, "A", None) if hasattr(x, "A") else getattr(x, "array", None)
        base = np.ascontiguousarray(np.asarray(x))
        return hashlib.sha1(base.tobytes() + (np.ascontiguousarray(np.asarray(extra)).tobytes() if extra is not None else b"")).hexdigest()[:16]
    if isinstance(x, np.ndarray):
        a = np.ascontiguousarray(x)
        return hashlib.sha1((str(a.dtype) + str(a.shape)).encode() + a.tobytes()).hexdigest()[:16]
    if isinstance(x, (tuple, list)):
        return hashlib.sha1(("(" + ",".join(cid(e) for e in x) + ")").encode()).hexdigest()[:16]
    if isinstance(x, dict):
        return hashlib.sha1(repr(sorted((k, cid(v)) for k, v in x.items())).encode()).hexdigest()[:16]
    if isinstance(x, float) and math.isnan(x):
        return "nan"
    return hashlib.sha1(repr(x).encode()).hexdigest()[:16]


U1, U2 = (3, 1, -2, 1), (1, 2, 2, -3)


def gen_table(variant):
    """parameter name -> value; variant 0: unit quaternions / radians, variant 1: non-normalised / degrees-like magnitudes"""
    s = 1.0 if variant == 0 else 3.5
    q = g_unit(U1) * s
    p = g_unit(U2) * s
    R1, R2 = core.g_rot(U1), core.g_rot(U2)
    Q = np.array([g_unit(U1), g_unit(U2), g_unit((2, -1, 0, 3))]) * s
    acc = np.array([0.4, -0.9, 9.6]) * s
    mag = np.array([21.0, -3.5, 42.0]) * s
    gyr = np.array([0.12, -0.07, 0.25]) * s
    angles = np.array([0.3, -0.5, 1.2]) * (1.0 if variant == 0 else 40.0)
    T = {
        "q": q, "p": p, "q0": q.copy(), "q1": q.copy(), "q2": p.copy(), "quaternion": q, "q_omega": q.copy(), "q_1": q.copy(), "q_am": p.copy(),
        "dcm": R1, "R": R1, "R1": R1, "R2": R2, "C": R1, "DCM": np.array([R1, R2]), "rotations": np.array([R1, R2]), "A": R1, "B": R2,
        "acc": acc, "a": acc, "mag": mag, "m": mag, "gyr": gyr, "w": gyr, "omega": gyr, "Omega": gyr,
        "angles": angles, "Angles": np.array([angles, angles * 0.5]), "axis": np.array([1.0, 2.0, 2.0]) * s, "ax": "y", "angle": 0.7, "ang": 0.7,
        "v": np.array([1.0, -2.0, 0.5]) * s, "x": np.array([0.2, -0.1, 0.4]) * s, "y": np.array([-0.3, 0.6, 0.1]) * s,
        "t_array": np.array([0.0, 0.25, 1.0]), "weights": np.array([1.0, 2.0]) * s, "axes": "zyx",
        "lat": 48.1, "lon": 11.5, "h": 500.0, "lat0": 48.0, "lon0": 11.0, "h0": 400.0, "east": 120.0, "north": -40.0, "up": 7.0,
        "x0": 4.1e6, "y0": 8.3e5, "z0": 4.7e6, "z": 4.7e6, "az": 33.0, "elev": 12.0, "slant_range": 1500.0,
        "down": 100.0, "cross": -20.0, "above": 3.0, "dt": 0.01, "w1": acc, "w2": mag, "Hx": gyr, "Hy": gyr, "Hz": gyr,
        "state": q.copy() / np.linalg.norm(q), "state_covariance": np.diag([0.0, 0.01, 0.02, 0.01]),      # singular, as UKF.update leaves its P
        "Db": acc / np.linalg.norm(acc), "Dr": np.array([0.6, 0.0, 0.8]), "Pk_1": np.identity(4) * 0.01, "Phi": np.identity(4) + 0.01 * np.diag([0.0, 1.0, -1.0, 0.5]),
        "Sigma_eps": np.identity(4) * 1e-6, "Sigma_v": np.identity(4) * 1e-3, "mode": "normal", "use_mag": True,
        "data": np.array([[1.0, 2.0], [np.nan, np.nan], [3.0, 4.0]]), "array": R1, "item": q, "skew": None,
        "n": 3, "order": 2, "t": 0.5, "frame": "NED", "representation": "quaternion", "method": "shepperd", "version": 1, "eta": 0.0,
        "deg": True, "degrees": False, "in_deg": variant == 1, "rad": True, "return_euler": False, "span": None, "inplace": False, "frequency": 100.0,
    }
    return T


def batch_table():
    """variant 2: the N-row forms of the array arguments (several samples / quaternions / angle triples / matrices at once)"""
    T = gen_table(0)
    Q3 = np.array([g_unit(U1), g_unit(U2), g_unit((2, -1, 0, 3))])
    ang = T["angles"]
    T.update({"q": Q3 * 2.0, "p": Q3[::-1] * 0.5, "q1": Q3.copy(), "q2": Q3[::-1].copy(), "quaternion": Q3.copy(),
              "angles": np.array([ang, 0.5 * ang]), "dcm": T["DCM"], "R": T["DCM"], "R1": T["DCM"], "R2": T["DCM"][::-1].copy(), "C": T["DCM"],
              "acc": np.array([T["acc"], T["acc"] * 0.7 + 0.1, T["acc"][::-1].copy()]), "mag": np.array([T["mag"], T["mag"] * 1.2 - 3.0, T["mag"][::-1].copy()]),
              "a": np.array([T["acc"], T["acc"] * 0.7 + 0.1]), "m": np.array([T["mag"], T["mag"] * 1.2 - 3.0]),
              "v": np.array([T["v"], 2.0 * T["v"]]), "x": np.array([T["x"], T["y"]]), "y": np.array([T["y"], T["x"]])})
    return T


def gimbal_lock_matrix():
    """a rotation matrix at pitch exactly +-90 degrees, as the library itself builds it from a quaternion, whose extreme element has
    rounded one or two ulp beyond +-1 (about half of such quaternions give one); None if the search finds none"""
    best = None
    for i in range(200):
        r, y = 0.1 + 0.037 * i, -1.3 + 0.0291 * i
        for pitch in (0.5 * math.pi, -0.5 * math.pi):
            q = np.asarray(QUA.Quaternion(rpy=np.array([r, pitch, y])), dtype=float)
            for R in (np.asarray(QUA.Quaternion(q).to_DCM(), dtype=float), np.asarray(QUA.Quaternion(q).to_DCM(), dtype=float).T.copy()):
                # the element the roll-pitch-yaw extraction takes the arcsine of
                if abs(R[0, 2]) > 1.0:
                    try:
                        DCMM.DCM(R.copy())
                    except Exception:  # noqa
                        continue
                    return R
                best = R if best is None else best
    return best


def synth(fn, variant, skip_first=0):
    T = gen_table(variant) if variant < 2 else batch_table()
    try:
        sig = inspect.signature(fn)
    except (TypeError, ValueError):
        return None
    args = {}
    for i, (name, par) in enumerate(sig.parameters.items()):
        if i < skip_first or par.kind in (par.VAR_POSITIONAL, par.VAR_KEYWORD):
            continue
        if name in T and T[name] is not None:
            v = T[name]
            args[name] = v.copy() if isinstance(v, np.ndarray) else v
        elif par.default is not inspect._empty:
            continue
        elif getattr(fn, "__name__", "") in ("circle", "ellipse") and name in ("center", "phi"):
            continue
        else:
            return None
    # per-callable corrections of the name table (same names, different meaning)
    fname = getattr(fn, "__qualname__", getattr(fn, "__name__", ""))
    if fname == "q_correct":
        args["q"] = np.array([g_unit(U1), -g_unit(U2), g_unit((2, -1, 0, 3))]) * (1.0 if variant == 0 else 3.5)
    if fname in ("circle", "ellipse"):
        args["center"] = np.array([1.0, -2.0]) * (1.0 if variant == 0 else 3.5)
        if fname == "ellipse":
            args["phi"], args["axes"] = 0.4, (np.array([2.0, 1.0]) if variant == 0 else np.array([0.75, 3.0]))      # major length first, then minor length first
    if fname in ("Quaternion.from_angles", "Quaternion.from_rpy") and variant == 1:
        args["angles"] = np.array([3.0, -1.5, 6.0])
    if fname == "QuaternionArray.average" and "weights" in args:
        args["weights"] = np.array([1.0, 2.0, 0.5, 1.5]) * (1.0 if variant == 0 else 3.5)
    if fname == "QuaternionArray.rotate_by":
        args["order"] = "H"      # order="S" raises AxisError for every 4-vector on the pinned tree (np.roll(q, -1, axis=1) on a 1-D q): outside the listed properties, noted in DESIGN 8.6
    if fname in ("AngularRate.update",):
        args["method"] = "closed"
    if fname == "AngularRate.integrate_angular_positions":
        args["gyr"] = np.array([[0.12, -0.07, 0.25], [0.1, 0.05, -0.2], [-0.3, 0.02, 0.01]]) * (1.0 if variant == 0 else 3.5)
    if fname in ("FLAE.estimate",):
        args["method"] = "eig"
    return args


def frames_args(fn, variant):
    """frames functions use x, y, z as scalars"""
    T = gen_table(variant)
    T.update({"x": 4.2e6, "y": 1.7e5, "z": 4.8e6})
    sig = inspect.signature(fn)
    args = {}
    for name, par in sig.parameters.items():
        if name == "x" and fn.__name__ in ("ned2enu", "enu2ned", "_ltp_transformation"):
            args[name] = np.array([1.0, 2.0, 3.0]) if variant == 0 else np.array([[1.0, 2.0, 3.0], [-4.0, 0.5, 6.0]])
        elif fn.__name__ == "eci2ecef" and name in ("w", "t"):
            args[name] = {"w": 7.292115e-5, "t": 1234.5}[name]
        elif name in T and T[name] is not None and not isinstance(T[name], np.ndarray):
            args[name] = T[name]
        elif par.default is not inspect._empty:
            continue
        else:
            return None
    return args


def process_state():
    """process-wide settings a library call has no business changing: what later calls return (or whether they raise) depends on them"""
    import warnings
    return (tuple((f[0], getattr(f[1], "pattern", f[1]), f[2].__name__, getattr(f[3], "pattern", f[3]), f[4]) for f in warnings.filters),
            tuple(sorted(np.geterr().items())), tuple(sorted(np.get_printoptions().items(), key=str)) and None)


def observe(label, call, args, t, events, state=None, other_args=None):
    """call twice with equal contents (fresh copies); log content ids of every array argument before/after"""
    ps0 = process_state()
    def arrays_of(d):
        return [(k, v) for k, v in sorted(d.items()) if isinstance(v, np.ndarray)]
    outs = []
    for rep in range(2):
        a = {k: (v.copy() if (isinstance(v, np.ndarray) and k != "self") else v) for k, v in args.items()}
        before = [cid(v) for _, v in arrays_of(a)] + [cid({k: v for k, v in a.items() if not isinstance(v, np.ndarray)})]
        t.calls += 1
        o = core.outcome(lambda: call(a))
        after = [cid(v) for _, v in arrays_of(a)] + [before[-1]]
        res = cid(np.asarray(o[1]) if o[0] == "ok" and isinstance(o[1], (np.ndarray, list)) else (o[1] if o[0] == "ok" else ("raise", o[1])))
        if o[0] == "ok" and isinstance(o[1], tuple):
            res = cid([np.asarray(e) if isinstance(e, np.ndarray) else e for e in o[1]])
        if o[0] == "ok" and hasattr(o[1], "__dict__") and not isinstance(o[1], np.ndarray):
            # an estimator object: its public array outputs
            res = cid({k: v for k, v in vars(o[1]).items() if k in ("Q", "A", "W", "R") and isinstance(v, np.ndarray)})
        events.append({"f": label, "before": before, "after": after, "res": res})
        changed = [k for (k, _), b, c in zip(arrays_of(a), before, after) if b != c]
        if changed:
            t.fail("C19|%s|mutates-argument-%s" % (label, "+".join(changed)), {"callable": label, "args": {k: args[k] for k in changed}, "after": {k: a[k] for k in changed}})
        outs.append((o[0], res, o[1] if o[0] == "raise" else None))
        # the caller owns what it got back: (1) a result held by the caller is not changed by a later call with OTHER arguments
        # (a shared output buffer), (2) scribbling on a returned array does not change what the next call returns.  Only arrays that
        # share no memory with an argument or with the object the method was called on are the caller's own.
        if rep == 0 and o[0] == "ok":
            rets = [x for x in (o[1] if isinstance(o[1], tuple) else (o[1],)) if isinstance(x, np.ndarray) and x.dtype.kind in "fi" and x.size]
            owners = [v for v in a.values() if isinstance(v, np.ndarray)] + [getattr(a.get("self"), nm, None) for nm in ("A", "array")]
            own = [x for x in rets if not any(isinstance(w, np.ndarray) and np.shares_memory(x, w) for w in owners)]
            held = [cid(np.array(x)) for x in own]
            if (own or "one object" in label) and other_args is not None:
                b = {k: (v.copy() if (isinstance(v, np.ndarray) and k != "self") else v) for k, v in other_args.items()}
                if "self" in a:
                    b["self"] = a["self"]
                core.outcome(lambda: call(b))
                if [cid(np.array(x)) for x in own] != held:
                    # not a clause of C19 as stated (the same arguments would still give the same result): recorded in the evidence
                    # notes only; the product routes, where it breaks associativity of nested calls, are decided by C09
                    t.shared_buffers = getattr(t, "shared_buffers", []) + [label]
            for x in own:
                if x.flags.writeable:
                    try:
                        np.asarray(x)[...] = 777
                    except Exception:  # noqa
                        pass
    # streaming use: the attitude a recursive update returned is handed back as the next call's a-priori attitude; it is the caller's
    # array then (an argument), and must come out of the second call as it went in
    if ("self" in args or "one object" in label) and isinstance(args.get("q"), np.ndarray):
        a = {k: (v.copy() if (isinstance(v, np.ndarray) and k != "self") else v) for k, v in args.items()}
        o1 = core.outcome(lambda: call(a))
        if o1[0] == "ok" and isinstance(o1[1], np.ndarray) and o1[1].shape == args["q"].shape and o1[1].dtype.kind == "f":
            prev = o1[1]
            before_ = cid(np.array(prev))
            b = dict(a, q=prev)
            t.calls += 1
            core.outcome(lambda: call(b))
            if cid(np.array(prev)) != before_:
                t.fail("C19|%s|mutates-argument-q[the previous result handed back]" % label,
                       {"callable": label, "note": "the attitude returned by one call, passed as q to the next, was overwritten by it"})
    ps1 = process_state()
    if ps1 != ps0:
        import warnings
        what = "warnings-filters" if ps1[0] != ps0[0] else "numpy-error-state"
        t.fail("C19|%s|leaves-process-wide-state-changed|%s" % (label, what),
               {"callable": label, "before": str(ps0[0][:2]) + " " + str(ps0[1]), "after": str(ps1[0][:2]) + " " + str(ps1[1]),
                "note": "calls made later in the process (with the same arguments as before) answer differently or raise"})
        # put it back so that the remaining callables are observed under the settings the run started with
        warnings.filters[:] = list(PROCESS_WARNINGS)
        np.seterr(**PROCESS_NPERR)
    if outs[0][0] == "raise" and outs[1][0] == "raise":
        return "uncovered"
    if outs[0][1] != outs[1][1]:
        t.fail("C19|%s|second-call-differs" % label, {"callable": label, "note": "the array returned by the first call was overwritten by the caller in between"})
    return "covered"


def catalogue():
    """(label, callable taking the argument dict, argument dict) for both variants"""
    items = []
    mods = [("orientation", ORI), ("quaternion", QUA), ("dcm", DCMM), ("mathfuncs", MFN), ("metrics", MET), ("geometry", GEO)]
    for mname, mod in mods:
        for name, fn in inspect.getmembers(mod, inspect.isfunction):
            if fn.__module__ != mod.__name__ or name.startswith("_") or name in SKIP:
                continue
            for variant in (0, 1):
                args = synth(fn, variant)
                if args is None:
                    items.append(("%s.%s" % (mname, name), None, None))
                    continue
                if mname == "metrics" and "x" in args and "y" in args:
                    pass
                items.append(("%s.%s[%d]" % (mname, name, variant), (lambda a, fn=fn: fn(**a)), args))
            # the N-row forms of the arguments, where the function accepts them (a function that refuses them is not listed)
            args2 = synth(fn, 2)
            if args2 is not None and any(isinstance(v, np.ndarray) and v.ndim >= 2 for v in args2.values()):
                probe = core.outcome(lambda: fn(**{k: (v.copy() if isinstance(v, np.ndarray) else v) for k, v in args2.items()}))
                if probe[0] == "ok":
                    items.append(("%s.%s[N-row arguments]" % (mname, name), (lambda a, fn=fn: fn(**a)), args2))
            # N-row form of the functions that have one
            if mname == "metrics" and name in ("chordal", "qdist", "qeip", "qcip", "qad"):
                T0 = gen_table(0)
                if name == "chordal":
                    args = {"R1": np.array([T0["R1"], T0["R2"]]), "R2": np.array([T0["R2"], T0["R1"]])}
                else:
                    args = {"q1": np.array([T0["q"], T0["p"], T0["q"]]) * 2.0, "q2": np.array([T0["p"], T0["p"], -T0["q"]]) * 0.5}
                items.append(("%s.%s[N-row]" % (mname, name), (lambda a, fn=fn: fn(**a)), args))
    for name, fn in inspect.getmembers(FRM, inspect.isfunction):
        if fn.__module__ != FRM.__name__ or name.startswith("_"):
            continue
        for variant in ((0, 1) if name in ("ned2enu", "enu2ned") else (0,)):
            args = frames_args(fn, variant)
            items.append(("frames.%s%s" % (name, "[%d]" % variant if variant else ""), (lambda a, fn=fn: fn(**a)) if args is not None else None, args))
    # classes: constructor + every public method / property
    T0 = gen_table(0)
    ctor = {"Quaternion": (QUA.Quaternion, {"q": T0["q"] * 2.0}), "QuaternionArray": (QUA.QuaternionArray, {"q": np.array([g_unit(U1), -g_unit((30, 10, -20, 11)), g_unit(U2), g_unit((2, -1, 0, 3))]) * 2.0}),      # rows 1-2: a sign jump
            "DCM": (DCMM.DCM, {"array": T0["R1"]})}
    gl = gimbal_lock_matrix()
    if gl is not None:
        ctor["DCM[at gimbal lock]"] = (DCMM.DCM, {"array": gl})
    for cname, (cls, cargs) in ctor.items():
        items.append(("%s()" % cname, (lambda a, cls=cls: np.asarray(cls(**a))), cargs))
        for kwname, val in () if cname.startswith("DCM[") else (("dcm", T0["R1"]), ("rpy", T0["angles"])) if cname == "Quaternion" else ((("DCM", T0["DCM"]), ("rpy", T0["Angles"])) if cname == "QuaternionArray" else
                                                                                               (("q", T0["q"] * 2.0), ("rpy", T0["angles"]), ("axang", None))):
            if val is None:
                continue
            items.append(("%s(%s=)" % (cname, kwname), (lambda a, cls=cls, kwname=kwname: np.asarray(cls(**{kwname: a["v"]}))), {"v": val}))
        for name, member in inspect.getmembers(cls):
            if name.startswith("_") or name in SKIP or name in INPLACE_OK or name in dir(np.ndarray):
                continue
            if isinstance(member, property):
                items.append(("%s.%s" % (cname, name), (lambda a, name=name: getattr(a["self"], name)), {"self": cls(**{k: (v.copy() if isinstance(v, np.ndarray) else v) for k, v in cargs.items()})}))
            elif inspect.isfunction(member) or inspect.ismethod(member):
                for variant in (0, 1):
                    margs = synth(member, variant, skip_first=0 if inspect.ismethod(member) else 1)
                    if margs is None:
                        items.append(("%s.%s" % (cname, name), None, None))
                        continue
                    if name in ("slerp_nan", "rotate_by", "from_DCM") and "inplace" in inspect.signature(member).parameters:
                        margs["inplace"] = False
                    margs = dict(margs)
                    margs["self"] = cls(**{k: (v.copy() if isinstance(v, np.ndarray) else v) for k, v in cargs.items()})
                    items.append(("%s.%s[%d]" % (cname, name, variant),
                                  (lambda a, name=name: getattr(a["self"], name)(**{k: v for k, v in a.items() if k != "self"})), margs))
    # estimators: constructors with data, estimate(), update*()
    N = 6
    hist = {"gyr": np.tile(T0["gyr"], (N, 1)) * np.linspace(0.5, 1.5, N)[:, None], "acc": np.tile(T0["acc"], (N, 1)) + 0.01 * np.arange(N)[:, None],
            "mag": np.tile(T0["mag"], (N, 1)) - 0.02 * np.arange(N)[:, None]}
    for cname in ("Madgwick", "Mahony", "EKF", "UKF", "AQUA", "ROLEQ", "FKF", "Complementary", "Fourati", "AngularRate", "Tilt", "TRIAD", "Davenport", "QUEST", "FLAE",
                  "OLEQ", "SAAM", "FAMC", "FQA"):
        cls = getattr(F, cname)
        params = inspect.signature(cls.__init__).parameters
        cargs = {}
        for pn in params:
            if pn in hist:
                cargs[pn] = hist[pn]
        if cname == "TRIAD":
            cargs = {"w1": hist["acc"], "w2": hist["mag"], "v1": np.array([0.0, 0.0, 1.0]), "v2": np.array([1.0, 0.0, 2.0])}
        mref = np.array([21.0, 1.5, 43.9])
        extra = {"Madgwick": {"q0": T0["q"] * 2.0}, "Mahony": {"q0": T0["q"].copy(), "b0": np.array([0.01, -0.02, 0.03])},
                 "EKF": {"q0": T0["q"].copy(), "P": np.identity(4) * 0.5, "noises": np.array([0.09, 0.25, 0.64]), "magnetic_ref": mref.copy()},
                 "UKF": {"q0": T0["q"].copy(), "P": np.identity(4) * 0.02, "process_noise_covariance": np.identity(4) * 2e-4,
                         "measurement_noise_covariance": np.identity(3) * 0.02},
                 "AQUA": {"q0": T0["q"].copy()}, "ROLEQ": {"q0": T0["q"].copy(), "weights": np.array([1.0, 2.0]), "magnetic_ref": mref.copy()},
                 "Complementary": {"w0": T0["angles"].copy()}, "AngularRate": {"q0": T0["q"].copy()}, "FLAE": {"weights": np.array([1.0, 2.0])},
                 "OLEQ": {"weights": np.array([1.0, 2.0]), "magnetic_ref": mref.copy()}, "Davenport": {"weights": np.array([1.0, 2.0])},
                 "QUEST": {"weights": np.array([1.0, 2.0])},
                 "FQA": {"mag_ref": np.array([1.0, 0.0, 2.0])}, "Fourati": {"q0": T0["q"].copy()}}.get(cname, {})
        cargs = dict(cargs, **extra)

        def make(a, cls=cls, cname=cname):
            np.random.seed(3)
            return cls(**a)
        items.append(("%s(...)" % cname, make, cargs))
        others = [n_ for n_, m_ in inspect.getmembers(cls, inspect.isfunction) if not n_.startswith("_") and n_ not in ("estimate", "update", "updateIMU", "updateMARG", "init_q")]
        for mname in ["estimate", "update", "updateIMU", "updateMARG", "init_q"] + others:
            if not hasattr(cls, mname):
                continue
            m = getattr(cls, mname)
            margs = synth(m, 0, skip_first=1)
            if margs is None:
                items.append(("%s.%s" % (cname, mname), None, None))
                continue
            if cname == "TRIAD":
                margs = {"w1": T0["acc"].copy(), "w2": T0["mag"].copy()}

            def callm(a, cls=cls, mname=mname, cname=cname):
                np.random.seed(3)
                obj = cls(v1=np.array([0.0, 0.0, 1.0]), v2=np.array([1.0, 0.0, 2.0])) if cname == "TRIAD" else cls()
                return getattr(obj, mname)(**a)
            items.append(("%s.%s" % (cname, mname), callm, margs))
            # an object BUILT with the caller's option arrays (no data), then one single-sample call: the option arrays stay as they were
            arr_opts = {k: v for k, v in extra.items() if isinstance(v, np.ndarray)}
            if arr_opts and cname != "TRIAD":
                margs3 = dict(margs)
                margs3.update({"ctor_" + k: v.copy() for k, v in arr_opts.items()})

                def callm3(a, cls=cls, mname=mname):
                    np.random.seed(3)
                    obj = cls(**{k[5:]: v for k, v in a.items() if k.startswith("ctor_")})
                    return getattr(obj, mname)(**{k: v for k, v in a.items() if not k.startswith("ctor_")})
                items.append(("%s(%s).%s" % (cname, ", ".join(sorted(arr_opts)), mname), callm3, margs3))
            # ONE object asked twice: estimators whose single-sample methods carry no state between calls (Mahony's bias and the
            # Kalman covariances are carried by design; OLEQ starts from a random quaternion) must answer the same again
            if cname not in ("Mahony", "EKF", "UKF", "OLEQ"):
                for variant, opts in ((0, {}), (1, {"adaptive": True} if cname == "AQUA" else ({"gain": 0.5} if cname == "Madgwick" else {}))):
                    margs2 = synth(m, variant, skip_first=1)
                    if margs2 is None:
                        continue
                    if cname == "TRIAD":
                        margs2 = {"w1": gen_table(variant)["acc"].copy(), "w2": gen_table(variant)["mag"].copy()}
                    if opts.get("adaptive") and "acc" in margs2:
                        # a "dynamic" sample: magnitude error between the two thresholds (0.1, 0.2) of the adaptive gain
                        from ahrs.filters.aqua import GRAVITY as AQUA_G     # the module's own reference magnitude
                        margs2["acc"] = margs2["acc"] / np.linalg.norm(margs2["acc"]) * AQUA_G * 1.15
                    holder = {}

                    def calls(a, cls=cls, mname=mname, cname=cname, opts=opts, holder=holder):
                        if "obj" not in holder:
                            holder["obj"] = cls(v1=np.array([0.0, 0.0, 1.0]), v2=np.array([1.0, 0.0, 2.0])) if cname == "TRIAD" else cls(**opts)
                        return getattr(holder["obj"], mname)(**a)
                    items.append(("%s.%s[one object, %s]" % (cname, mname, "defaults" if not opts else ",".join("%s=%s" % kv for kv in opts.items())) + ("[%d]" % variant), calls, margs2))
    # the geodesy / geomagnetism helpers (scalar arguments: repeatability, process-wide settings and the 0-d array form apply)
    from ahrs.utils import wgs84 as WGSM, wmm as WMMM
    items.append(("wgs84.international_gravity", lambda a: WGSM.international_gravity(**a), {"lat": 48.137}))
    items.append(("wgs84.international_gravity[1967]", lambda a: WGSM.international_gravity(**a), {"lat": -33.5, "epoch": "1967"}))
    items.append(("wgs84.welmec_gravity", lambda a: WGSM.welmec_gravity(**a), {"lat": 48.137, "h": 519.0}))
    items.append(("wmm.geodetic2spherical", lambda a: WMMM.geodetic2spherical(**a), {"lat": 0.84, "lon": 0.2, "h": 0.519}))
    ell = WGSM.WGS()
    for mname in ("normal_gravity", "meridian_curvature_radius", "vertical_curvature_radius", "normal_gravity_potential"):
        fn = getattr(ell, mname, None)
        if fn is None or not callable(fn):
            continue
        pars = [p_ for p_ in inspect.signature(fn).parameters]
        vals = {"lat": 48.137, "h": 519.0, "latitude": 48.137, "height": 519.0}
        if all(p_ in vals or inspect.signature(fn).parameters[p_].default is not inspect._empty for p_ in pars):
            items.append(("WGS.%s[one object]" % mname, (lambda a, fn=fn: fn(**a)), {p_: vals[p_] for p_ in pars if p_ in vals}))
    items.append(("WMM(date, place)", lambda a: WMMM.WMM(**a).magnetic_elements, {"date": 2022.5, "latitude": 48.137, "longitude": 11.575, "height": 0.519}))
    wm = WMMM.WMM()
    items.append(("WMM.magnetic_field[one object]", (lambda a: (wm.magnetic_field(**a), dict(wm.magnetic_elements))[1]), {"latitude": -33.9, "longitude": 151.2, "height": 0.05, "date": 2023.25}))
    return items


PROCESS_WARNINGS, PROCESS_NPERR = [], {}


def run(chk):
    import warnings
    PROCESS_WARNINGS[:] = list(warnings.filters)
    PROCESS_NPERR.update(np.geterr())
    quick = chk.tier == "quick"
    res = tlc.run_tlc("MC_CallerMemory", core.spec_cfg("MC_CallerMemory" if quick else "MC_CallerMemory_thorough"), timeout=1800)
    chk.add_tlc("CallerMemory[2 buffers, 2 contents, 2 callables, memo <= %d]" % (3 if quick else 4), res)
    if res.violated:
        chk.fail("C19|spec|%s" % res.violated, {"tlc": res.output[-2000:]})
    t = Tally()
    events = []
    uncovered, covered = [], []
    items = catalogue()
    # building the catalogue already calls into the library (objects for the method entries): whatever that did to the process-wide
    # settings is undone here, so that every callable below is observed from the settings the run started with and the one that
    # changes them is named by its own observation
    warnings.filters[:] = list(PROCESS_WARNINGS)
    np.seterr(**PROCESS_NPERR)
    import re as _re
    by_base = {}
    for label, call, args in items:
        if call is not None:
            by_base.setdefault(_re.sub(r"\[\d\]$", "", label), []).append(args)

    def other_of(label, args):
        """arguments of the same callable with OTHER contents: the other variant, or the arrays rearranged (rolled / transposed / reversed)"""
        if "one object" in label and isinstance(args.get("mag"), np.ndarray):
            # between the two identical calls the same object is handed a sample whose magnetometer has dropped out
            return dict(args, mag=np.zeros_like(args["mag"]))
        alts = [x for x in by_base.get(_re.sub(r"\[\d\]$", "", label), []) if x is not args]
        if alts and set(alts[0]) == set(args):
            return alts[0]
        out = {}
        for k, v in args.items():
            if isinstance(v, np.ndarray) and k != "self" and v.dtype.kind == "f":
                out[k] = np.roll(v, 1) if v.ndim == 1 else (np.swapaxes(v, -1, -2).copy() if v.shape[-1] == v.shape[-2] else v[::-1].copy())
            else:
                out[k] = v
        return out
    for label, call, args in items:
        if call is None:
            uncovered.append(label)
            continue
        st = observe(label, call, args, t, events, other_args=other_of(label, args))
        (covered if st == "covered" else uncovered).append(label)
        t.keys.add(label)
    core.merge(chk, [t])
    chk.notes["callables_covered"] = len(set(covered))
    chk.notes["results_changed_by_a_later_call_with_other_arguments"] = sorted(set(getattr(t, "shared_buffers", [])))
    chk.notes["callables_uncovered"] = sorted(set(uncovered))
    chk.rule = ("public callables found by introspection of ahrs.common.{orientation, quaternion, dcm, frames, mathfuncs, geometry}, ahrs.utils.metrics, "
                "the classes Quaternion / QuaternionArray / DCM (constructors, keyword constructors, every public method and property) and 19 estimator "
                "classes (constructor with data and caller-owned q0/b0/P/weights, estimate, update*), each with unit and non-normalised / degree-sized "
                "arguments, called twice on equal contents; distinct = distinct callable x argument class; callables whose arguments could not be "
                "synthesised (%d) are listed in notes" % len(set(uncovered)))
    chk.assume("content id = SHA-1 of dtype, shape and bytes; explicit in-place operations (normalize, remove_jumps, inplace=True) excluded; estimators "
               "that draw from NumPy's global RNG are seeded before each call; Sensors / random_attitudes are random by contract and excluded")
    chk.sample({"callable": events[0]["f"], "before": events[0]["before"], "after": events[0]["after"], "result": events[0]["res"]})
    traces = [{"events": events[i:i + 60]} for i in range(0, len(events), 60)]
    # events of calls that were already reported as mutating are removed from the trace (they would only be rejected again)
    bad = set(s.split("|")[1] for s, _ in chk.violations) | set(s.split("|")[1] for s in chk.known_hits)
    traces = [{"events": [e for e in tr["events"] if e["f"] not in bad]} for tr in traces]
    traces = [tr for tr in traces if tr["events"]]
    core.validate_traces(chk, "TraceCallerMemory", core.spec_cfg("TraceCallerMemory"), traces, "memory",
                         lambda tr, i: "C19|%s|trace-rejected" % tr["events"][min(i, len(tr["events"])) - 1]["f"])


def replay(chk, body):
    run(chk)
