"""C17 -- coordinate-frame transformations are mutually inverse rigid maps.

Specification: spec/FrameGraph.tla -- frames as nodes, the public conversion functions as edges,
identity paths (edge sequences of length <= 4 that return to their start frame, angular frames
left in the unit they were entered with), and the exact rational ECEF->ENU rotation at Pythagorean
origins with the integer invariants Isometry and OriginToZero.  TLC enumerates the 124 identity
paths and the exact cases; the harness walks every path from a grid of start points (poles,
equator, +-180, heights -10..1000 km, offsets to 1e6 m) and requires the start coordinates back."""
import math
from fractions import Fraction
import numpy as np

from .. import core, tlc
from ..core import Tally, maxdiff
from ahrs.common import frames as FR

LATS = [0.0, 30.0, -30.0, 60.0, -60.0, 89.9999, -89.9999, 90.0, -90.0, 1e-9, -1e-9, 45.0,
        # metres from the rotation axis (3 m, 1.7 m, 11 cm), and a few metres from the equatorial plane
        89.99997, -89.999985, 89.999999, 3e-5,
        # kilometres from the rotation axis (5.6 km, 3.3 km, 1.1 km, 56 km, 550 km): a polar-cap shortcut exact only AT the pole shows here
        89.95, -89.97, 89.99, -89.5, 85.0]
LONS = [0.0, 90.0, -90.0, 180.0, -180.0, 11.57, -123.456,
        # metres from the antimeridian (5.5 m, 1.1 m, 11 cm) and from the prime meridian
        179.99995, -179.99999, 179.999999, -2e-5, 135.0]
HS = [-1e4, 0.0, 678.9, 1e4, 1e6]
ORIGINS = [(48.137, 11.576, 519.0), (0.0, 0.0, 0.0), (90.0, 0.0, 100.0), (-33.9, -180.0, 1e4), (89.9999, 77.0, -50.0), (0.0, 180.0, 2e5), (-90.0, 45.0, 0.0)]
OFFSETS = [(1.0, 2.0, 3.0), (-150.0, 80.5, 12.25), (1e3, -2e4, 5e2), (1e6, 1e6, -1e5), (0.0, 0.0, 10.0), (-3e5, 0.0, 0.0), (0.0, 1e-3, 0.0),
           # the origin itself, and targets almost at the zenith / nadir at long range
           (0.0, 0.0, 0.0), (0.01, 0.0, 1e6), (-0.02, 0.005, -5e5), (0.0, 0.0, -7.5e5)]
ANGLES = [0.0, 33.0, 90.0, -120.0, 180.0, 359.0]


ELL = None      # (a, b) of another ellipsoid handed to every function that takes one, or None for the default


def apply(edge, pt, org, ang):
    la0, lo0, h0 = org
    if ELL is not None:
        a_, b_ = ELL
        if edge == "geodetic2ecef":
            return FR.geodetic2ecef(pt[0], pt[1], pt[2], a_, b_)
        if edge in ("ecef2geodetic", "ecef2lla"):
            return getattr(FR, edge)(pt[0], pt[1], pt[2], a_, b_)
        if edge == "ecef2enu":
            return FR.ecef2enu(pt[0], pt[1], pt[2], la0, lo0, h0, a_, b_)
        if edge == "ecef2enuv":
            x0, y0, z0 = FR.geodetic2ecef(la0, lo0, h0, a_, b_)
            return FR.ecef2enuv(pt[0], pt[1], pt[2], x0, y0, z0, la0, lo0)
        if edge == "enu2ecef":
            return FR.enu2ecef(pt[0], pt[1], pt[2], la0, lo0, h0, a_, b_)
        if edge == "geodetic2enu":
            return FR.geodetic2enu(pt[0], pt[1], pt[2], la0, lo0, h0, a_, b_)
        if edge == "uvw+origin":
            return np.asarray(FR.geodetic2ecef(la0, lo0, h0, a_, b_)) + np.asarray(pt)
    if edge == "geodetic2ecef":
        return FR.geodetic2ecef(pt[0], pt[1], pt[2])
    if edge in ("ecef2geodetic", "ecef2lla"):
        return getattr(FR, edge)(pt[0], pt[1], pt[2])
    if edge == "ecef2enu":
        return FR.ecef2enu(pt[0], pt[1], pt[2], la0, lo0, h0)
    if edge == "ecef2enuv":
        x0, y0, z0 = FR.geodetic2ecef(la0, lo0, h0)
        return FR.ecef2enuv(pt[0], pt[1], pt[2], x0, y0, z0, la0, lo0)
    if edge == "enu2ecef":
        return FR.enu2ecef(pt[0], pt[1], pt[2], la0, lo0, h0)
    if edge == "geodetic2enu":
        return FR.geodetic2enu(pt[0], pt[1], pt[2], la0, lo0, h0)
    if edge == "enu2aer":
        return FR.enu2aer(pt[0], pt[1], pt[2])
    if edge == "aer2enu":
        return FR.aer2enu(pt[0], pt[1], pt[2])
    if edge == "enu2aer[rad]":
        return FR.enu2aer(pt[0], pt[1], pt[2], deg=False)
    if edge == "aer2enu[rad]":
        return FR.aer2enu(pt[0], pt[1], pt[2], deg=False)
    if edge == "enu2dca":
        return FR.enu2dca(pt[0], pt[1], pt[2], ang)
    if edge == "dca2enu":
        return FR.dca2enu(pt[0], pt[1], pt[2], ang)
    if edge == "enu2dca[rad]":
        return FR.enu2dca(pt[0], pt[1], pt[2], math.radians(ang), deg=False)
    if edge == "dca2enu[rad]":
        return FR.dca2enu(pt[0], pt[1], pt[2], math.radians(ang), deg=False)
    if edge == "enu2ned":
        return FR.enu2ned(np.array(pt, dtype=float))
    if edge == "ned2enu":
        return FR.ned2enu(np.array(pt, dtype=float))
    if edge in ("enu2ned[N-by-3]", "ned2enu[N-by-3]"):
        # the point travels as the middle row of a 3-point array
        P = np.array([[120.0, -45.5, 7.25], list(pt), [-3.0e4, 2.5e3, -800.0]], dtype=float)
        return np.asarray(getattr(FR, edge[:7])(P), dtype=float)[1]
    if edge == "enu2uvw":
        return FR.enu2uvw(pt[0], pt[1], pt[2], la0, lo0)
    if edge == "uvw+origin":
        return np.asarray(FR.geodetic2ecef(la0, lo0, h0)) + np.asarray(pt)
    raise KeyError(edge)


START_FRAME = {"geodetic2ecef": "GEO", "geodetic2enu": "GEO", "ecef2geodetic": "ECEF", "ecef2lla": "ECEF", "ecef2enu": "ECEF", "ecef2enuv": "ECEF",
               "enu2ecef": "ENU", "enu2aer": "ENU", "enu2aer[rad]": "ENU", "enu2dca": "ENU", "enu2dca[rad]": "ENU", "enu2ned": "ENU", "enu2uvw": "ENU", "ned2enu": "NED",
               "enu2ned[N-by-3]": "ENU", "ned2enu[N-by-3]": "NED"}


def starts(frame, k):
    if frame == "GEO":
        return [(LATS[(k + i) % len(LATS)], LONS[(k + 2 * i) % len(LONS)], HS[(k + 3 * i) % len(HS)]) for i in range(6)] + \
               [(90.0, 45.0, 1e4), (-90.0, -100.0, 0.0), (0.0, 180.0, 1e6), (0.0, 0.0, -1e4)]
    if frame == "ECEF":
        pts = []
        for i in range(8):
            la, lo, h = LATS[(k + i) % len(LATS)], LONS[(k + 2 * i) % len(LONS)], HS[(k + i) % len(HS)]
            pts.append(tuple(FR.geodetic2ecef(la, lo, h, *ELL) if ELL is not None else FR.geodetic2ecef(la, lo, h)))
        return pts
    return [OFFSETS[(k + i) % len(OFFSETS)] for i in range(7)]


def replay_paths(args):
    global ELL
    paths, k0 = args[0], args[1]
    ELL = args[2] if len(args) > 2 else None
    t = Tally()
    for pi, path in enumerate(paths):
        frame = START_FRAME[path[0]]
        geo_in_path = any(e in ("ecef2geodetic", "ecef2lla") for e in path)
        for si, pt in enumerate(starts(frame, pi + k0)):
            org = ORIGINS[(pi + si) % len(ORIGINS)]
            ang = ANGLES[(pi + 2 * si) % len(ANGLES)]
            cur = tuple(float(c) for c in pt)
            t.keys.add((tuple(path), pt, org))
            case = {"path": path, "start": pt, "origin": org, "angle": ang}
            ok = True
            for e in path:
                t.calls += 1
                o = core.outcome(lambda: apply(e, cur, org, ang))
                if o[0] != "ok":
                    cls = "equatorial-plane" if (e in ("ecef2geodetic", "ecef2lla") and abs(cur[2]) < 1.0) else "other"
                    t.fail("C17|%s|raises-%s|%s" % (e, o[1], cls), dict(case, at=e, err=o[2], point=cur))
                    ok = False
                    break
                cur = tuple(float(c) for c in np.asarray(o[1], dtype=float))
            if not ok:
                continue
            if frame == "GEO":
                dlat = abs(cur[0] - pt[0])
                dlon = abs(((cur[1] - pt[1]) + 180.0) % 360.0 - 180.0)
                dh = abs(cur[2] - pt[2])
                pole = abs(pt[0]) >= 89.9999
                bad = []
                if not dlat <= 1e-6:
                    bad.append("latitude")
                if not pole and not dlon <= 1e-9:
                    bad.append("longitude")
                if not dh <= 1e-2:
                    bad.append("height")
                if bad:
                    t.fail("C17|%s|%s-not-recovered|%s" % ("->".join(path), "+".join(bad), "pole" if abs(pt[0]) == 90.0 else ("near-pole" if pole else "lat=%g" % (0 if abs(pt[0]) < 1e-6 else 1))),
                           dict(case, got=cur, dlat=dlat, dlon=dlon, dh=dh))
            else:
                scale = max(1.0, max(abs(c) for c in pt))
                lim = 0.1 if geo_in_path else 1e-9 * scale
                d = maxdiff(cur, pt)
                t.resid("cartesian", d / scale)
                if not d <= lim:
                    t.fail("C17|%s|start-not-recovered" % "->".join(path), dict(case, got=cur, diff=d))
        # the same identity path for a LIST of points: all of them are taken forward first (the results are kept as returned), then
        # all of them back -- a result handed out earlier is the caller's and stays what it was
        if len(path) == 2:
            pts = [tuple(float(c) for c in p) for p in starts(frame, pi + k0)]
            org = ORIGINS[pi % len(ORIGINS)]
            ang = ANGLES[pi % len(ANGLES)]
            o = core.outcome(lambda: [apply(path[0], p, org, ang) for p in pts])
            if o[0] == "ok":
                held = o[1]
                o2 = core.outcome(lambda: [apply(path[1], tuple(float(c) for c in np.asarray(h, dtype=float)), org, ang) for h in held])
                if o2[0] == "ok":
                    for p, bk in zip(pts, o2[1]):
                        bk = tuple(float(c) for c in np.asarray(bk, dtype=float))
                        t.calls += 2
                        if frame == "GEO":
                            pole = abs(p[0]) >= 89.9999
                            good = abs(bk[0] - p[0]) <= 1e-6 and (pole or abs(((bk[1] - p[1]) + 180.0) % 360.0 - 180.0) <= 1e-9) and abs(bk[2] - p[2]) <= 1e-2
                        else:
                            scale = max(1.0, max(abs(c) for c in p))
                            good = maxdiff(bk, p) <= (0.1 if geo_in_path else 1e-9 * scale)
                        if not good:
                            t.fail("C17|%s|list-of-points-not-recovered" % "->".join(path), {"path": path, "start": p, "got": bk, "origin": org})
                            break
        if len(t.samples) < 2:
            t.samples.append({"identity_path": path, "start_frame": frame})
    return t


def exact_cases(recs):
    t = Tally()
    for r in recs:
        c = r["c"]
        la, lo, off = c["lat"], c["lon"], c["off"]
        latd = math.degrees(math.atan2(la[1], la[0]))
        lond = math.degrees(math.atan2(lo[1], lo[0]))
        want = np.array([Fraction(x, c["den"]) for x in c["enu"]], dtype=float)
        for scale in (1.0, 1e3, 16667.0):
            o = np.array(off, dtype=float) * scale
            x0, y0, z0 = 4.1e6, 1.2e5, -4.6e6
            got = np.asarray(FR.ecef2enuv(x0 + o[0], y0 + o[1], z0 + o[2], x0, y0, z0, latd, lond), dtype=float)
            t.calls += 1
            t.keys.add((tuple(la), tuple(lo), tuple(off), scale))
            lim = 1e-12 * max(1.0, np.linalg.norm(o)) + 4e-9     # the subtraction x - x0 at 4e6 m costs ~1e-9 m
            if not maxdiff(got, want * scale) <= lim:
                t.fail("C17|ecef2enuv|not-the-exact-rotation", {"lat": la, "lon": lo, "off": off, "scale": scale, "got": got, "want": want * scale})
            # distance preserved, origin to zero
            if not abs(np.linalg.norm(got) - np.linalg.norm(o)) <= lim:
                t.fail("C17|ecef2enuv|not-an-isometry", {"lat": la, "lon": lo, "off": off, "scale": scale})
            back = np.asarray(FR.enu2uvw(got[0], got[1], got[2], latd, lond), dtype=float)
            t.calls += 1
            if not maxdiff(back, o) <= lim:
                t.fail("C17|enu2uvw|not-the-inverse-rotation", {"lat": la, "lon": lo, "off": off, "scale": scale, "got": back})
        z = np.asarray(FR.ecef2enu(*FR.geodetic2ecef(latd if abs(latd) <= 90 else 90.0, lond, 123.0), latd if abs(latd) <= 90 else 90.0, lond, 123.0), dtype=float)
        t.calls += 1
        if not maxdiff(z, np.zeros(3)) <= 1e-9:
            t.fail("C17|ecef2enu|origin-not-zero", {"lat": latd, "lon": lond, "got": z})
        # local-level rotation matrices (radians): orthogonal transposes of each other
        A = np.asarray(FR.ecef2llf(math.radians(latd), math.radians(lond)), dtype=float)
        B = np.asarray(FR.llf2ecef(math.radians(latd), math.radians(lond)), dtype=float)
        t.calls += 2
        if not (maxdiff(A @ A.T, np.identity(3)) <= 1e-12 and maxdiff(A, B.T) <= 1e-15 and abs(abs(np.linalg.det(A)) - 1) <= 1e-12):
            t.fail("C17|ecef2llf/llf2ecef|not-orthogonal-transposes", {"lat": latd, "lon": lond, "A": A, "B": B})
    if recs:
        t.samples.append(recs[0]["c"])
    return t


def run(chk):
    quick = chk.tier == "quick"
    chk.rule = ("identity paths (<= 4 edges) enumerated by TLC x start points (GEO: 12 latitudes incl. +-90, +-89.9999, +-1e-9, 0; 7 longitudes "
                "incl. +-180; heights -10 km..1000 km; ENU offsets to 1e6 m) x 7 origins x 6 DCA angles, on the default ellipsoid and with other semi-axes handed to every function that takes them; exact ECEF->ENU cases at Pythagorean "
                "origins x 3 scalings; distinct = distinct (path, start, origin) / exact case; none trivial")
    chk.assume("GEO round trips: latitude 1e-6 deg, longitude 1e-9 deg (mod 360, ignored within 1e-4 deg of a pole), height 1e-2 m (the "
               "documented fixed-point threshold of ecef2geodetic is 1e-8 rad); Cartesian round trips 1e-9 relative (0.1 m through GEO)")
    res = tlc.run_tlc("MC_FrameGraph", core.spec_cfg("MC_FrameGraph"), timeout=900)
    chk.add_tlc("FrameGraph[paths <= 4, exact rotations]", res)
    if res.violated:
        chk.fail("C17|spec|%s" % res.violated, {"tlc": res.output[-2000:]})
    paths = sorted([r["path"] for r in res.out_records if r["kind"] == "path"])
    exact = [r for r in res.out_records if r["kind"] == "exact"]
    reps = 1 if quick else 12
    jobs = [(paths[i::16], k) for i in range(16) for k in range(reps)]
    # the same paths on other ellipsoids, handed consistently to every function that takes the semi-axes (Clarke 1866, a sphere)
    jobs += [(paths[i::16], k + 3, ell) for i in range(16) for k in range(1 if quick else 4)
             for ell in ((6378206.4, 6356583.8),) + (() if quick else ((6371000.0, 6371000.0), (6377397.155, 6356078.963)))]
    import multiprocessing as mp
    with mp.get_context("fork").Pool(16) as pool:
        core.merge(chk, pool.map(replay_paths, jobs))
    core.merge(chk, core.pmap(exact_cases, exact))
    chk.exhaustive = True


def replay(chk, body):
    run(chk)
