"""C15 -- WMM answers depend only on (date, place, frame), not on call path or history.

Specification: spec/WmmSession.tla -- the life of one WMM object (loaded coefficient file,
how often the table was scaled in place, current date, identity of the answer the elements
hold), ideal invariant ServesWhatWasAsked for every history; TLC checks it exhaustively for
histories of <= 4 operations over 3 dates u None x 6 places x 2 frames and generates longer
histories (-simulate).  The harness replays them on real objects; abstract-state
determinism: two histories asking for the same (date, place, frame) must leave bit-equal
elements, equal to a fresh object's answer; the recorded histories are validated by
TraceWmmSession.  Element consistency (H, F, I, D from X, Y, Z; ENU = NED swapped), poles and
+-180 are checked on every answer."""
import datetime
import math
import numpy as np

from .. import core, tlc
from ..core import Tally
from ahrs.utils.wmm import WMM

# one decimal date, one calendar-date OBJECT (the same object is handed to every call, as a caller holding a date would), one integer-ish decimal
DATE_SETS = [{"d2017": 2017.3, "d2022": datetime.date(2022, 10, 19), "d2027": 2027.1},
             # decimal dates that are not day-aligned and sit next to a rounding boundary of the 0.1-year secular-variation step
             {"d2017": 2018.35, "d2022": 2021.65, "d2027": 2026.55},
             {"d2017": 2016.05, "d2022": 2023.45, "d2027": datetime.date(2029, 12, 31)},
             # the second half of leap years, decimal dates just above a 0.05-year boundary (a day lost in a day <-> decimal-year conversion
             # crosses it), and an integer year
             {"d2017": 2016.7541, "d2022": 2024.7541, "d2027": 2028},
             # the first instants of the later coefficient files, reached from the last tenth of the first one
             {"d2017": 2019.9, "d2022": 2020.0, "d2027": 2025.0}]
DATES = dict(DATE_SETS[0])
PLACES = {"munich": (48.1372, 11.5755, 0.519), "lat0": (0.0, 11.5, 0.0), "lon0": (48.0, 0.0, 0.5), "northpole": (90.0, 0.0, 0.0),
          "southpole": (-90.0, 45.0, 1.0), "lon180": (-30.0, 180.0, 10.0),
          # the same latitude and longitude as "munich", 400 km higher (consecutive queries that differ in height only)
          "munich400": (48.1372, 11.5755, 400.519),
          # below the ellipsoid (the model is valid from -1 km): both entry points must take it
          "below": (-33.9, 18.42, -0.43)}
KEYS = ["X", "Y", "Z", "H", "F", "I", "D", "GV"]


def elems(obj):
    d = obj.magnetic_elements
    return tuple(None if d[k] is None else float(d[k]) for k in KEYS)


def real_date(d):
    if d == "today":
        return datetime.date.today()
    return DATES[d]


_ref = {}


def reference(d, p, f):
    """the answer of a fresh object through the method route"""
    key = (d, p, f)
    if key not in _ref:
        o = WMM(frame=f)
        la, lo, h = PLACES[p]
        o.magnetic_field(la, lo, h, date=real_date(d))
        _ref[key] = elems(o)
    return _ref[key]


def consistent(e, f, place):
    """element relations; returns a failure mode or None"""
    if any(v is None for v in e):
        return "elements-are-None"
    X, Y, Z, H, F, I, D, GV = e
    if not all(math.isfinite(v) for v in e):
        return "not-finite"
    if abs(H - math.hypot(X, Y)) > 1e-9 * max(1, abs(H)) or abs(F - math.hypot(H, Z)) > 1e-9 * max(1, F):
        return "H-F-inconsistent"
    if abs(I - math.degrees(math.atan2(Z, H))) > 1e-9 or abs(D - math.degrees(math.atan2(Y, X))) > 1e-9:
        return "I-D-inconsistent"
    if not (10000 < F < 80000):
        return "implausible-intensity"
    return None


def replay_behaviours(behs):
    t = Tally()
    traces = []
    for b in behs:
        obj = None
        objdate = None
        frame = None
        events = []
        acts = []
        ok = True
        for step in b[1:]:
            act, args = step["action"], step["args"]
            try:
                if act == "Construct":
                    d, p, f = args
                    la, lo, h = PLACES[p]
                    obj = WMM(latitude=la, longitude=lo, height=h, frame=f) if d == "None" else WMM(date=real_date(d), latitude=la, longitude=lo, height=h, frame=f)
                    objdate = "today" if d == "None" else d
                    frame = f
                    want = (objdate, p, f)
                    ev = {"act": act, "d": d, "p": p, "f": f}
                elif act == "Query":
                    d, p = args
                    la, lo, h = PLACES[p]
                    if d == "None":
                        obj.magnetic_field(la, lo, h, date=None)
                    elif d == "omitted":
                        obj.magnetic_field(la, lo, h)          # the date argument left out: today
                        objdate = "today"
                    else:
                        obj.magnetic_field(la, lo, h, date=real_date(d))
                        objdate = d
                    want = (objdate, p, frame)
                    ev = {"act": act, "d": d, "p": p, "f": frame}
                else:
                    ev = {"act": "Read", "d": "None", "p": "-", "f": frame}
            except Exception as e:  # noqa
                t.fail("C15|%s|raises-%s" % (act, type(e).__name__), {"history": acts + [(act, args)], "err": str(e)[:200]})
                ok = False
                break
            acts.append((act,) + tuple(args))
            t.calls += 1
            got = elems(obj)
            ref = reference(*want)
            bad = consistent(got, frame, want[1])
            # every public accessor reports the same answer: the vector accessor and the attributes against the elements dictionary
            if not bad:
                try:
                    gv = np.asarray(obj.geodetic_vector, dtype=float).ravel()
                    if gv.shape != (3,) or not np.array_equal(gv, np.array(got[:3])):
                        bad = "geodetic_vector-differs-from-elements"
                    elif any(float(getattr(obj, k_)) != v_ for k_, v_ in zip(KEYS[:7], got[:7])):
                        bad = "attributes-differ-from-elements"
                except Exception as e_:  # noqa
                    bad = "accessor-raises-%s" % type(e_).__name__
            if bad:
                t.fail("C15|%s|%s|%s" % (act, bad, want[1] if want[1] in ("lat0", "lon0", "northpole", "southpole") else "any-place"), {"history": acts, "elements": got})
            if got == ref:
                served = list(want)
            else:
                served = ["garbage", want[1], want[2]]
                mode = "history-dependent" if len(acts) > 1 else "constructor-differs-from-method"
                t.fail("C15|%s|%s|date=%s" % (act, mode, "None" if (act != "Read" and args[0] == "None") else "given"),
                       {"history": acts, "elements": got, "fresh_object": ref, "asked": want})
            ev["served"] = served
            events.append(ev)
        t.keys.add(tuple(acts))
        if ok and events:
            traces.append({"events": events})
        if len(t.samples) < 2 and len(acts) >= 3:
            t.samples.append({"history": acts})
    return t, traces


def static_checks():
    """ENU = NED swapped, +-180 equal, poles finite, constructor = method at every place/date"""
    t = Tally()
    for dn, d in DATES.items():
        for pn, (la, lo, h) in PLACES.items():
            t.keys.add(("static", dn, pn))
            ned = WMM(date=d, latitude=la, longitude=lo, height=h, frame="NED")
            enu = WMM(date=d, latitude=la, longitude=lo, height=h, frame="ENU")
            t.calls += 2
            en, ee = elems(ned), elems(enu)
            if any(v is None for v in en + ee):
                t.fail("C15|Construct|elements-are-None|%s" % pn, {"date": d, "place": pn})
                continue
            if not (ee[0] == en[1] and ee[1] == en[0] and ee[2] == -en[2]):
                t.fail("C15|frame|ENU-not-NED-swapped", {"date": d, "place": pn, "ned": en, "enu": ee})
            for spelled in ("enu", "Enu"):
                e2 = elems(WMM(date=d, latitude=la, longitude=lo, height=h, frame=spelled))
                t.calls += 1
                if e2 != ee:
                    t.fail("C15|frame|spelling-%s-differs-from-ENU" % spelled, {"date": d, "place": pn})
            if abs(lo) == 180.0:
                other = elems(WMM(date=d, latitude=la, longitude=-lo, height=h, frame="NED"))
                t.calls += 1
                if max(abs(a - b) for a, b in zip(other[:3], en[:3])) > 1e-6:
                    t.fail("C15|longitude|+180-differs-from--180", {"date": d, "lat": la, "plus": en, "minus": other})
    return t


def run(chk):
    quick = chk.tier == "quick"
    chk.rule = ("histories of Construct / Query / Read over 3 dates (one per coefficient file; 5 concrete triples incl. a shared calendar-date object and decimal dates next to 0.05-year rounding boundaries) u None, 6 places (lat 0, lon 0, both poles, "
                "lon 180, Munich) and 2 frames: exhaustive in TLC for <= 4 operations, -simulate histories of <= 10 operations replayed on real "
                "objects; distinct = distinct history; histories of one call are the trivial ones (counted separately in notes)")
    chk.assume("bit-equality of the eight elements between any two histories that ask for the same (date, place, frame) and a fresh object")
    res = tlc.run_tlc("MC_WmmSession", core.spec_cfg("MC_WmmSession"), timeout=600)
    chk.add_tlc("WmmSession[ideal, <= 4 operations, exhaustive]", res)
    if res.violated:
        chk.fail("C15|spec|%s" % res.violated, {"tlc": res.output[-2000:]})
    nb = 120 if quick else 2500
    res = tlc.run_tlc("MC_WmmSession", core.spec_cfg("MC_WmmSession").replace("MaxOps = 4", "MaxOps = 10"), simulate=nb, depth=11,
                      seed=chk.seed % 100000, workers=1, want_behaviours=True, timeout=900)
    chk.add_tlc("WmmSession[-simulate %d x depth 10]" % nb, res)
    traces = []
    for si, ds in enumerate(DATE_SETS if not quick else [DATE_SETS[0], DATE_SETS[1 + chk.seed % 2], DATE_SETS[3], DATE_SETS[4]]):
        DATES.clear()
        DATES.update(ds)
        _ref.clear()
        t, trs = replay_behaviours(res.behaviours if si == 0 or not quick else res.behaviours[::2])
        traces += trs
        core.merge(chk, [t, static_checks()])
    DATES.clear()
    DATES.update(DATE_SETS[0])
    chk.notes["single_call_histories"] = sum(1 for k in chk.distinct if isinstance(k, tuple) and len(k) == 1)
    core.validate_traces(chk, "TraceWmmSession", core.spec_cfg("TraceWmmSession"), traces, "wmm",
                         lambda tr, i: "C15|trace-rejected|%s" % tr["events"][min(i, len(tr["events"])) - 1]["act"])


def replay(chk, body):
    run(chk)
