"""Implementation side of spec/ArgumentForms.tla.

While a property check drives the library, the first few top-level calls of every public callable
(per process and per vector of argument kinds) are repeated with the SAME VALUES in other FORMS --
the form vectors TLC enumerated -- and the answers are compared with the answer of the call the
check itself made (which the check compares with the specification).  A different answer for the same
values is a wrong answer for that input: a violation of the property being checked, reported as
    Cxx|forms|<callable>|<kind:form,...>|answer-depends-on-the-form-of-the-argument
A write through a read-only argument is reported under C19 only.

The layer validates itself on every callable before it judges it: the call is first repeated with the
arguments in their ORIGINAL form on a snapshot of the object ("control"); when that does not reproduce
the answer bit for bit (random by contract, state the snapshot cannot capture), the callable is left alone.
Nothing in here can make the check's own call fail: every shadow step is wrapped, internal errors are counted
in the evidence notes.
"""
import copy
import inspect
import math
import os
import time

import numpy as np

PROP = os.environ.get("VERIF_PROP", "")
TABLE = {}            # kinds tuple -> list of form tuples (from TLC)
DEPTH = 0
SEEN = {}
STATS = {"callables-wrapped": 0}
SHADOWED = set()
DIR = None
OPTION_PROBE = False
ZERO_D = []
NUDGE = [False]
PER_KEY = int(os.environ.get("VERIF_FORMS_PER_KEY", "2"))
MAX_ELEMS = 6000
SLOW = float(os.environ.get("VERIF_FORMS_SLOW", "0.05"))
INSTALLED = False
# callables random by contract or outside the layer's reach
SKIP = {"q_random", "random_attitudes", "Sensors", "DCM.from_q", }


# option strings the library reads through .upper() / .lower() (frame: orientation.py:657,723, triad.py:323, oleq.py:201, roleq.py:153,
# aqua.py:817, ekf.py:1008, wmm.py:390; representation: quaternion.py:496, orientation.py:659, saam.py:198, triad.py:321; method:
# dcm.py:1056, quaternion.py:1828,2745, angular.py).  Other strings (angle_unit, order, axes names, file names) are values, not forms.
CASE_BLIND = {"frame", "representation", "method"}
_PARAMS = {}


def _params(name, orig):
    p = _PARAMS.get(name)
    if p is None:
        try:
            p = list(inspect.signature(orig).parameters)
        except Exception:
            p = []
        _PARAMS[name] = p
    return p


# documented synonyms (docstring "Synonym of ..."): the same call under the other name answers bit for bit the same
SYNONYMS = {"DCM.to_quaternion": "to_q", "DCM.to_q": "to_quaternion", "DCM.from_quaternion": "from_q", "DCM.from_q": "from_quaternion",
            "DCM.to_axisangle": "to_axang", "DCM.to_axang": "to_axisangle", "DCM.from_axisangle": "from_axang", "DCM.from_axang": "from_axisangle",
            "DCM.to_rpy": "to_angles", "DCM.to_angles": "to_rpy",
            "Quaternion.from_rpy": "from_angles", "Quaternion.from_angles": "from_rpy",
            "QuaternionArray.from_rpy": "from_angles", "QuaternionArray.from_angles": "from_rpy", "QuaternionArray.conjugate": "conj", "QuaternionArray.conj": "conjugate",
            "frames.ecef2geodetic": "ecef2lla", "frames.ecef2lla": "ecef2geodetic",
            "orientation.rpy2q": "cardan2q", "orientation.cardan2q": "rpy2q", "orientation.q2rpy": "q2cardan", "orientation.q2cardan": "q2rpy",
            "AQUA.estimate": "init_q", "AQUA.init_q": "estimate"}
_DROP = {}


def _droppable(name, orig, kwargs):
    if not kwargs:
        return ()
    info = _DROP.get(name)
    if info is None:
        try:
            ps = inspect.signature(orig).parameters
            info = (set(k for k, v in ps.items() if v.default is not inspect._empty), any(v.kind == v.VAR_KEYWORD for v in ps.values()),
                    set(k for k, v in ps.items() if v.default is inspect._empty and v.kind in (v.POSITIONAL_OR_KEYWORD, v.KEYWORD_ONLY)))
        except Exception:
            info = (set(), False, set())
        _DROP[name] = info
    withdef, varkw, required = info
    out = []
    for k, v in kwargs.items():
        if k in required:
            continue
        # data arrays handed over by keyword (acc=, gyr=, mag=, q0=, DCM=, rpy= ...) are the call's input, not options
        if isinstance(v, np.ndarray) and v.size > 4:
            continue
        if k in DATA_KEYWORDS:
            continue
        if k in withdef or varkw:
            out.append(k)
    return tuple(sorted(out))


DATA_KEYWORDS = {"acc", "gyr", "mag", "q0", "q", "dcm", "DCM", "rpy", "angles", "axang", "euler", "x", "y", "z", "quaternions", "date", "latitude",
                 "longitude", "height", "w0", "b0", "P", "num_samples", "random"}


def _kind(a):
    if type(a) is np.ndarray and a.dtype.kind in "fi" and 1 <= a.size <= MAX_ELEMS:
        return "vec" if a.ndim == 1 else "mat"
    if type(a) is float and math.isfinite(a):
        return "num"
    if type(a) is str and a.isalpha() and 1 <= len(a) <= 14 and (a.lower() != a or a.upper() != a):
        return "str"
    return None


class NotThisValue(Exception):
    """the form does not exist for this value (a non-integral number has no int form)"""


def _reform(a, form):
    if form in ("ndarray", "as-given", "float"):
        return a
    if form == "np.float64":
        return np.float64(a)
    if form == "0-d":
        z = np.array(a)
        ZERO_D.append((z, float(a)))
        return z
    if form == "int":
        if a != int(a) or abs(a) > 2 ** 40:
            raise NotThisValue()
        return int(a)
    if form == "list":
        return a.tolist()
    if form == "tuple":
        return tuple(a.tolist())
    if form == "strided":
        big = np.full(tuple(2 * s for s in a.shape), 77.25, dtype=a.dtype)
        view = big[tuple(slice(None, None, 2) for _ in a.shape)]
        view[...] = a
        return view
    if form == "F-order":
        return np.asfortranarray(a.copy())
    if form == "readonly":
        c = a.copy()
        c.flags.writeable = False
        return c
    if form == "lower":
        return a.lower()
    if form == "upper":
        return a.upper()
    raise KeyError(form)


def _sig(x, depth=0):
    """value signature of an answer"""
    if x is None:
        return ("none",)
    if isinstance(x, str):
        return ("str", x.lower())
    if isinstance(x, (bool, int, float, np.generic)):
        return ("arr", (), np.array([float(x)]))
    if isinstance(x, np.ndarray):
        if x.dtype.kind in "fiub":
            return ("arr", tuple(x.shape), np.array(x, dtype=float).ravel())
        if x.dtype.kind == "c":
            return ("arr", tuple(x.shape), np.concatenate([np.real(x).ravel(), np.imag(x).ravel()]).astype(float))
        return ("opaque",)
    if isinstance(x, (tuple, list)):
        try:
            a = np.asarray(x, dtype=float)
            return ("arr", tuple(a.shape), a.ravel())
        except Exception:
            return ("seq", tuple(_sig(e, depth + 1) for e in x))
    if isinstance(x, dict):
        return ("map", tuple((str(k), _sig(v, depth + 1)) for k, v in sorted(x.items(), key=lambda kv: str(kv[0]))))
    if hasattr(x, "__dict__") and depth < 2:
        items = []
        for k, v in sorted(vars(x).items()):
            if k.startswith("_") or callable(v):
                continue
            if isinstance(v, (np.ndarray, bool, int, float, np.generic, str, tuple, list)) or v is None:
                items.append((k, _sig(v, depth + 1)))
        return ("obj", type(x).__name__, tuple(items))
    return ("opaque",)


def _same(a, b, exact):
    if a[0] != b[0]:
        # a number and a one-element array are the same value
        return False
    if a[0] == "arr":
        if a[1] != b[1] and not (a[2].size == 1 and b[2].size == 1):
            return False
        if exact:
            return np.array_equal(a[2], b[2], equal_nan=True)
        if a[2].shape != b[2].shape:
            return False
        with np.errstate(all="ignore"):
            return bool(np.all((a[2] == b[2]) | (np.isnan(a[2]) & np.isnan(b[2])) |
                               (np.abs(a[2] - b[2]) <= 1e-9 * (1.0 + np.abs(a[2])))))
    if a[0] in ("seq",):
        return len(a[1]) == len(b[1]) and all(_same(x, y, exact) for x, y in zip(a[1], b[1]))
    if a[0] == "map":
        return len(a[1]) == len(b[1]) and all(x[0] == y[0] and _same(x[1], y[1], exact) for x, y in zip(a[1], b[1]))
    if a[0] == "obj":
        da, db = dict(a[2]), dict(b[2])
        return a[1] == b[1] and all(_same(da[k], db[k], exact) for k in da if k in db)
    if a[0] == "str":
        return a[1] == b[1]
    return True


def _dist(a, b):
    """largest relative difference between two answer signatures (inf when their structure differs)"""
    if a is None and b is None:
        return 0.0
    if a is None or b is None or a[0] != b[0]:
        return float("inf")
    if a[0] == "arr":
        if a[2].shape != b[2].shape:
            return float("inf")
        with np.errstate(all="ignore"):
            x, y = a[2], b[2]
            ok = (x == y) | (np.isnan(x) & np.isnan(y))
            if np.all(ok):
                return 0.0
            d = np.where(ok, 0.0, np.abs(x - y) / (1.0 + np.abs(x)))
            d = np.where(np.isnan(d), np.inf, d)
            return float(np.max(d))
    if a[0] == "seq":
        if len(a[1]) != len(b[1]):
            return float("inf")
        return max([_dist(x, y) for x, y in zip(a[1], b[1])] or [0.0])
    if a[0] == "map":
        if len(a[1]) != len(b[1]) or any(x[0] != y[0] for x, y in zip(a[1], b[1])):
            return float("inf")
        return max([_dist(x[1], y[1]) for x, y in zip(a[1], b[1])] or [0.0])
    if a[0] == "obj":
        if a[1] != b[1]:
            return float("inf")
        da, db = dict(a[2]), dict(b[2])
        return max([_dist(da[k], db[k]) for k in da if k in db] or [0.0])
    if a[0] == "str":
        return 0.0 if a[1] == b[1] else float("inf")
    return 0.0


def _nudge(a):
    """the same argument one unit in the last place away (to measure how the call amplifies rounding noise of its input)"""
    if type(a) is np.ndarray and a.dtype.kind == "f":
        return np.nextafter(a, np.where(a >= 0, np.inf, -np.inf))
    if type(a) is float:
        return math.nextafter(a, math.inf if a >= 0 else -math.inf)
    return a


def _snap(o):
    """a working copy of the object a method is called on"""
    if isinstance(o, np.ndarray):
        c = o.copy()
        for k, v in vars(o).items():
            if isinstance(v, np.ndarray) and v.shape == o.shape and np.shares_memory(v, o):
                c.__dict__[k] = c.view(np.ndarray)
            else:
                c.__dict__[k] = copy.deepcopy(v)
        return c
    return copy.deepcopy(o)


def _describe(kinds, fv):
    return ",".join("%s:%s" % (k, f) for k, f in zip(kinds, fv) if f not in ("ndarray", "as-given", "float"))


def _shadow(name, orig, mode, args, kwargs):
    """mode: 'fn' (plain function), 'method' (args[0] is self), 'new' (args[0] is the class), 'init' (args[0] is the fresh self)"""
    global DEPTH
    if DEPTH > 0 or not TABLE:
        return orig(*args, **kwargs)
    first = 0 if mode == "fn" else 1
    slots = []          # (where, key, kind)
    pnames = _params(name, orig)
    for i in range(first, len(args)):
        k = _kind(args[i])
        if k == "str" and not (i < len(pnames) and pnames[i] in CASE_BLIND):
            k = None
        if k:
            slots.append(("a", i, k))
    for kname in kwargs:
        k = _kind(kwargs[kname])
        if k == "str" and kname not in CASE_BLIND:
            k = None
        if k:
            slots.append(("k", kname, k))
    slots = slots[:4]
    # options: keyword arguments the callable has a default for (or takes through **kwargs) -- the call could have been made without them
    drop = _droppable(name, orig, kwargs) if (PROP != "C19" and OPTION_PROBE) else ()
    syn = SYNONYMS.get(name) if PROP != "C19" else None
    if not slots and not drop and not syn:
        return orig(*args, **kwargs)
    kinds = tuple(s[2] for s in slots)
    # objects that differ in a scalar option (storage order, frame, representation, adaptive flag ...) are sampled separately
    state = ()
    if mode == "method":
        try:
            state = tuple(sorted((k_, v_) for k_, v_ in vars(args[0]).items() if type(v_) in (bool, str)))[:6]
        except Exception:
            state = ()
    key = (name, kinds, drop, state)
    n = SEEN.get(key, 0)
    if n >= PER_KEY:
        return orig(*args, **kwargs)
    SEEN[key] = n + 1
    DEPTH += 1
    try:
        # pristine copies of everything, taken before the check's own call
        try:
            rs = np.random.get_state()
            p_args = [copy.deepcopy(a) for a in args[first:]]
            p_kw = {k: copy.deepcopy(v) for k, v in kwargs.items()}
            p_self = _snap(args[0]) if mode == "method" else None
        except Exception:
            _emit("count", "internal-errors")
            return orig(*args, **kwargs)
        # spec/OptionScope.tla: the same call WITHOUT its options, made before and after the check's own call (on copies of the state
        # before it), answers bit for bit the same: options are used for the call they are given to and nothing else
        plain_before = None
        if drop:
            def plain():
                a2 = [copy.deepcopy(a) for a in p_args]
                k2 = {k: copy.deepcopy(v) for k, v in p_kw.items() if k not in drop}
                np.random.set_state(rs)
                if mode == "fn":
                    return (_sig(orig(*a2, **k2)), None, None)
                if mode == "method":
                    s2 = _snap(p_self)
                    r = orig(s2, *a2, **k2)
                    return (_sig(r), _sig(np.asarray(s2)) if isinstance(s2, np.ndarray) else None, None)
                if mode == "new":
                    return (_sig(orig(args[0], *a2, **k2)), None, None)
                s2 = object.__new__(type(args[0]))
                orig(s2, *a2, **k2)
                return (_sig(None), None, _sig(s2))
            try:
                t1 = time.perf_counter()
                plain_before = plain()
                if time.perf_counter() - t1 > SLOW:
                    plain_before = None
            except Exception:
                plain_before = None          # the call needs its options
            finally:
                np.random.set_state(rs)
        t0 = time.perf_counter()
        ret = orig(*args, **kwargs)          # the check's own call: exceptions propagate to the check
        if plain_before is not None:
            try:
                rs_keep = np.random.get_state()
                plain_after = plain()
                np.random.set_state(rs_keep)
                _emit("count", "option-scope-probes")
                if not all((p_ is None and q_ is None) or (p_ is not None and q_ is not None and _same(p_, q_, True)) for p_, q_ in zip(plain_before, plain_after)):
                    _emit("finding", ("%s|options|%s|%s|call-without-options-answers-differently-after-a-call-with-options" % (PROP, name, ",".join(drop)),
                                      {"callable": name, "options-of-the-other-call": {k: repr(p_kw[k])[:120] for k in drop},
                                       "before": repr(plain_before)[:500], "after": repr(plain_after)[:500]}))
            except Exception:
                _emit("count", "option-scope-probe-raises-after-the-call")
        if syn:
            try:
                rs_keep = np.random.get_state()
                a2 = [copy.deepcopy(a) for a in p_args]
                k2 = {k: copy.deepcopy(v) for k, v in p_kw.items()}
                np.random.set_state(rs)
                if mode == "fn":
                    import importlib
                    other = getattr(importlib.import_module(orig.__module__), syn)
                    other = getattr(other, "__wrapped__", other)
                    got_s = (_sig(other(*a2, **k2)), None)
                    base_s = (_sig(ret), None)
                else:
                    s2 = _snap(p_self)
                    got_s = (_sig(getattr(s2, syn)(*a2, **k2)), _sig(np.asarray(s2)) if isinstance(s2, np.ndarray) else None)
                    base_s = (_sig(ret), _sig(np.asarray(args[0])) if isinstance(args[0], np.ndarray) else None)
                np.random.set_state(rs_keep)
                _emit("count", "synonym-calls-compared")
                if not all((p_ is None and q_ is None) or (p_ is not None and q_ is not None and _same(p_, q_, True)) for p_, q_ in zip(got_s, base_s)):
                    _emit("finding", ("%s|forms|%s|synonym:%s|documented-synonym-answers-differently" % (PROP, name, syn),
                                      {"callable": name, "synonym": syn, "arguments": [repr(a)[:200] for a in p_args] + ["%s=%s" % (k, repr(v)[:120]) for k, v in p_kw.items()],
                                       "answer": repr(base_s)[:500], "synonym-answer": repr(got_s)[:500]}))
            except Exception as e_:
                _emit("count", "synonym-call-raises")
        if not slots:
            return ret
        if time.perf_counter() - t0 > SLOW:
            _emit("count", "calls-too-slow-to-repeat")     # long filter runs are not repeated a dozen times
            return ret
        try:
            rs_after = np.random.get_state()
            base = (_sig(ret), _sig(np.asarray(args[0])) if mode == "method" and isinstance(args[0], np.ndarray) else None,
                    _sig(args[0]) if mode == "init" else None)

            def again(fv):
                a2 = [copy.deepcopy(a) for a in p_args]
                k2 = {k: copy.deepcopy(v) for k, v in p_kw.items()}
                for (where, pos, kind), f in zip(slots, fv):
                    if where == "a":
                        a2[pos - first] = _reform(a2[pos - first], f)
                    else:
                        k2[pos] = _reform(k2[pos], f)
                if NUDGE[0]:
                    a2 = [_nudge(a) for a in a2]
                    k2 = {k: _nudge(v) for k, v in k2.items()}
                np.random.set_state(rs)
                if mode == "fn":
                    r = orig(*a2, **k2)
                    return (_sig(r), None, None)
                if mode == "method":
                    s2 = _snap(p_self)
                    r = orig(s2, *a2, **k2)
                    return (_sig(r), _sig(np.asarray(s2)) if isinstance(s2, np.ndarray) else None, None)
                if mode == "new":
                    r = orig(args[0], *a2, **k2)
                    return (_sig(r), None, None)
                s2 = object.__new__(type(args[0]))
                orig(s2, *a2, **k2)
                return (_sig(None), None, _sig(s2))

            def same(x, y, exact):
                return all((p is None and q is None) or (p is not None and q is not None and _same(p, q, exact)) for p, q in zip(x, y))
            try:
                ctl = again(tuple({"str": "as-given", "num": "float"}.get(k, "ndarray") for k in kinds))
                ok = same(ctl, base, True)
            except Exception:
                ok = False
            if not ok:
                _emit("count", "control-not-reproducible")
                _emit("unreproducible", name)
                SEEN[key] = 10 ** 9
                return ret
            # how much does the answer move when every float of the input moves by one ulp?  A form may change the order of a sum
            # (strided vs contiguous, list vs array): that is rounding noise of the same size, amplified by the call's own conditioning
            noise = 0.0
            try:
                NUDGE[0] = True
                nd = again(tuple({"str": "as-given", "num": "float"}.get(k, "ndarray") for k in kinds))
                noise = max(_dist(p_, q_) for p_, q_ in zip(nd, base))
            except Exception:
                noise = 0.0
            finally:
                NUDGE[0] = False
            if not noise < float("inf"):
                noise = 0.0
            limit = max(1e-9, 1e4 * noise)
            _emit("count", "calls-shadowed")
            if name not in SHADOWED:
                SHADOWED.add(name)
                _emit("shadowed", name)
            for fv in TABLE.get(kinds, ()):
                if "readonly" in fv and PROP != "C19":
                    continue
                if PROP == "C19" and "readonly" not in fv and "0-d" not in fv:
                    continue
                try:
                    ZERO_D[:] = []
                    got = again(fv)
                    if PROP == "C19" and "0-d" in fv:
                        # a 0-d array is an array: the call must leave it as it was
                        if any(float(z) != v0 for z, v0 in ZERO_D):
                            _emit("finding", ("%s|forms|%s|%s|changes-a-0-d-array-argument" % (PROP, name, _describe(kinds, fv)),
                                              {"callable": name, "forms": _describe(kinds, fv), "before-after": [(v0, float(z)) for z, v0 in ZERO_D]}))
                        continue
                except NotThisValue:
                    continue
                except Exception as e:
                    if "readonly" in fv and ("read-only" in str(e) or "readonly" in str(e)):
                        _emit("finding", ("%s|forms|%s|%s|writes-through-a-read-only-argument" % (PROP, name, _describe(kinds, fv)),
                                         {"callable": name, "forms": _describe(kinds, fv), "error": repr(e)[:300]}))
                    else:
                        _emit("count", "form-refused-by-the-library")
                    continue
                _emit("count", "form-vectors-compared")
                if max(_dist(p_, q_) for p_, q_ in zip(got, base)) > limit:
                    _emit("finding", ("%s|forms|%s|%s|answer-depends-on-the-form-of-the-argument" % (PROP, name, _describe(kinds, fv)),
                                     {"callable": name, "forms": _describe(kinds, fv),
                                      "arguments": [repr(a)[:200] for a in p_args] + ["%s=%s" % (k, repr(v)[:200]) for k, v in p_kw.items()],
                                      "answer": repr(base)[:600], "answer-in-this-form": repr(got)[:600]}))
            np.random.set_state(rs_after)
        except Exception:
            _emit("count", "internal-errors")
        return ret
    finally:
        DEPTH -= 1


def _wrap(name, orig, mode):
    def wrapper(*args, **kwargs):
        return _shadow(name, orig, mode, args, kwargs)
    wrapper.__name__ = getattr(orig, "__name__", "wrapped")
    wrapper.__qualname__ = getattr(orig, "__qualname__", name)
    wrapper.__doc__ = getattr(orig, "__doc__", None)
    wrapper.__wrapped__ = orig
    wrapper.__module__ = getattr(orig, "__module__", None)
    return wrapper


def install():
    """wrap the public callables of the package (before the property modules import them)"""
    global INSTALLED
    if INSTALLED or os.environ.get("VERIF_FORMS", "1") == "0":
        return
    INSTALLED = True
    import importlib
    import ahrs  # noqa
    mods = [importlib.import_module(m) for m in ("ahrs.common.orientation", "ahrs.common.frames", "ahrs.common.mathfuncs", "ahrs.common.geometry",
                                                  "ahrs.utils.metrics", "ahrs.utils.wgs84", "ahrs.utils.wmm", "ahrs.utils.core")]
    for m in mods:
        for n, f in list(vars(m).items()):
            if inspect.isfunction(f) and f.__module__ == m.__name__ and not n.startswith("_") and n not in SKIP:
                setattr(m, n, _wrap("%s.%s" % (m.__name__.split(".")[-1], n), f, "fn"))
                STATS["callables-wrapped"] += 1
    # re-export the wrapped functions where the package re-exports the originals
    for pkg in (importlib.import_module("ahrs.common"), importlib.import_module("ahrs.utils"), ahrs):
        for n, f in list(vars(pkg).items()):
            if inspect.isfunction(f) and not hasattr(f, "__wrapped__"):
                src = importlib.import_module(f.__module__) if f.__module__ and f.__module__.startswith("ahrs") else None
                w = getattr(src, n, None) if src else None
                if w is not None and getattr(w, "__wrapped__", None) is f:
                    setattr(pkg, n, w)
    classes = []
    from ahrs.common.quaternion import Quaternion, QuaternionArray
    from ahrs.common.dcm import DCM
    classes += [Quaternion, QuaternionArray, DCM]
    import ahrs.filters as F
    for n, c in vars(F).items():
        if inspect.isclass(c) and c.__module__.startswith("ahrs.filters"):
            classes.append(c)
    from ahrs.utils.wmm import WMM
    from ahrs.utils.wgs84 import WGS
    classes += [WMM, WGS]
    for c in classes:
        if c.__name__ in SKIP:
            continue
        for n, f in list(vars(c).items()):
            full = "%s.%s" % (c.__name__, n)
            if full in SKIP:
                continue
            if n == "__new__" and issubclass(c, np.ndarray):
                raw = f.__func__ if isinstance(f, staticmethod) else f
                setattr(c, n, staticmethod(_wrap(c.__name__, raw, "new")))
                STATS["callables-wrapped"] += 1
            elif n == "__init__" and not issubclass(c, np.ndarray) and inspect.isfunction(f):
                setattr(c, n, _wrap(c.__name__, f, "init"))
                STATS["callables-wrapped"] += 1
            elif inspect.isfunction(f) and not n.startswith("_"):
                setattr(c, n, _wrap(full, f, "method"))
                STATS["callables-wrapped"] += 1


def activate(chk):
    """load the form vectors from TLC (ArgumentForms) -- before any worker is forked"""
    global PROP
    if not INSTALLED:
        return
    from . import core, tlc
    PROP = chk.pid
    res = tlc.run_tlc("MC_ArgumentForms", core.spec_cfg("MC_ArgumentForms"), timeout=600)
    chk.add_tlc("ArgumentForms[kind vectors up to arity 4]", res)
    if res.violated:
        chk.fail("%s|spec|ArgumentForms|%s" % (chk.pid, res.violated), {"tlc": res.output[-2000:]})
    for r in res.out_records:
        TABLE[tuple(r["kinds"])] = [tuple(fv) for fv in r["forms"]]
    global OPTION_PROBE
    res2 = tlc.run_tlc("MC_OptionScope", core.spec_cfg("MC_OptionScope"), timeout=600)
    chk.add_tlc("OptionScope[schedules of <= 3 calls]", res2)
    if res2.violated:
        chk.fail("%s|spec|OptionScope|%s" % (chk.pid, res2.violated), {"tlc": res2.output[-2000:]})
    # the schedule the layer replays around every call that is given options: plain, given, plain
    OPTION_PROBE = any(list(r["calls"]) == ["plain", "given", "plain"] for r in res2.out_records)
    global DIR
    import tempfile
    DIR = tempfile.mkdtemp(prefix="ahrs-verif-forms-")


def _emit(kind, payload):
    """findings and counters go to a per-process file at once (workers of any pool, whatever they return)"""
    if not DIR:
        return
    import json
    try:
        with open(os.path.join(DIR, "%d.jsonl" % os.getpid()), "a") as f:
            f.write(json.dumps({"kind": kind, "payload": payload}, default=str) + "\n")
    except Exception:
        pass


def collect(chk):
    """parent side, at the end of a run: gather what every process wrote"""
    global DIR
    if not INSTALLED or not DIR:
        return
    import json
    import shutil
    note = chk.notes.setdefault("argument_forms", {})
    names = set()
    unrep = set()
    counts = {}
    for fn in sorted(os.listdir(DIR)):
        with open(os.path.join(DIR, fn)) as f:
            for line in f:
                try:
                    r = json.loads(line)
                except Exception:
                    continue
                if r["kind"] == "finding":
                    chk.fail(r["payload"][0], r["payload"][1])
                elif r["kind"] == "count":
                    counts[r["payload"]] = counts.get(r["payload"], 0) + 1
                elif r["kind"] == "shadowed":
                    names.add(r["payload"])
                elif r["kind"] == "unreproducible":
                    unrep.add(r["payload"])
    shutil.rmtree(DIR, ignore_errors=True)
    DIR = None
    note.update(counts)
    note["callables-wrapped"] = STATS["callables-wrapped"]
    note["callables-shadowed"] = sorted(names)
    note["callables-left-alone-because-the-control-call-does-not-reproduce"] = sorted(unrep)
    note["rule"] = ("spec/ArgumentForms.tla: the first %d top-level calls of every public callable per process and kind vector are repeated with the same "
                    "values in every form vector TLC enumerated; answers compared with the check's own call (1e-9 relative), after a bit-exact control; "
                    "spec/OptionScope.tla: a call given options is bracketed by the same call without them (schedule plain, given, plain), which must answer bit for bit the same" % PER_KEY)
