#!/bin/sh
# selftest/mutant.sh <ID> <tier> <file-relative-to-repo> <sed-expression> : run a check against a
# mutated scratch copy of /repo (never /repo itself); prints the check's verdict lines.
# Exit status: that of the check (1 = the mutant was detected).
set -e
ID=$1; TIER=$2; FILE=$3; EXPR=$4
D=$(mktemp -d /tmp/ahrs-mut-XXXXXX)
trap 'rm -rf "$D"' EXIT
mkdir -p "$D/repo" "$D/out"
cp -r /repo/ahrs "$D/repo/ahrs"
sed -i "$EXPR" "$D/repo/$FILE"
if cmp -s "$D/repo/$FILE" "/repo/$FILE"; then echo "MUTANT DID NOT APPLY"; exit 3; fi
set +e
AHRS_REPO="$D/repo" VERIF_OUT_DIR="$D/out" "$(dirname "$0")/../check" "$ID" "$TIER" 2>&1 | grep -E "VIOLATION|KNOWN-FINDING|MACHINERY|evaluations" | cut -c1-220 | head -${MUT_LINES:-6}
