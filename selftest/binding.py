#!/venv/bin/python
"""Demonstrates that the trace specifications are bound to what the harness records: for each trace
specification a batch of traces recorded from the real code is accepted by TLC; the same batch with ONE field of
ONE event corrupted, or ONE event deleted, is rejected (and only the corrupted trace is).  Exit 0 iff every
demonstration behaves that way."""
import copy, json, os, sys
sys.path.insert(0, os.path.dirname(os.path.dirname(os.path.abspath(__file__))))
sys.path.insert(0, os.environ.get("AHRS_REPO", "/repo"))
import warnings; warnings.filterwarnings("ignore")
import numpy as np; np.seterr(all="ignore")
from vf import core, tlc


class Probe(core.Check):
    def __init__(self):
        core.Check.__init__(self, "SELF", "quick", 1)
        self.known = {}


def verdict(module, cfg, traces, env=None):
    c = Probe()
    core.validate_traces(c, module, cfg, traces, "selftest", lambda tr, i: "rejected@%d" % i, env=env)
    return [r["trace_index"] if "trace_index" in r else None for _, r in c.violations], c


def rejected_ids(module, cfg, traces, env=None):
    c = Probe()
    tagged = [dict(t, _id=i) for i, t in enumerate(traces)]
    core.validate_traces(c, module, cfg, tagged, "selftest", lambda tr, i: "rejected|%d|%d" % (tr["_id"], i), env=env)
    return sorted(int(s.split("|")[1]) for s, _ in c.violations if s.startswith("rejected|"))


def demo(name, module, cfg, traces, corruptions, env=None):
    ok = True
    base = rejected_ids(module, cfg, traces, env)
    print("%-22s %4d traces recorded from the code: %s" % (name, len(traces), "all accepted" if not base else "REJECTED %s" % base[:5]))
    ok &= not base
    for label, fn in corruptions:
        tr2 = copy.deepcopy(traces)
        k = fn(tr2)
        rej = rejected_ids(module, cfg, tr2, env)
        good = rej == [k]
        print("   %-58s -> rejected traces %s %s" % (label, rej[:5], "OK" if good else "** NOT AS EXPECTED **"))
        ok &= good
    return ok


def main():
    ok = True
    # ---- C09 / TraceHamilton
    from vf.props import c09
    traces, fails = c09.record_traces(7, 60, 8, ["inverse_divides_by_norm"])
    cfg = core.spec_cfg("TraceHamilton", DEVIATIONS="InverseDividesByNorm")
    k = next(i for i, t in enumerate(traces) if len(t["events"]) >= 3)

    def c1(ts):
        ts[k]["events"][1]["num"][2] += 1
        return k

    def c2(ts):
        del ts[k]["events"][0]
        return k
    ok &= demo("C09 TraceHamilton", "TraceHamilton", cfg, traces, [("one component of one logged register + 1", c1), ("first event deleted", c2)])
    ki = next((i for i, t in enumerate(traces) if any(e["act"] == "Invert" and e["s"] > 1 for e in t["events"])), None)
    if ki is not None:
        rej = rejected_ids("TraceHamilton", core.spec_cfg("TraceHamilton", DEVIATIONS="NoDeviation"), traces)
        good = ki in rej
        print("   %-58s -> rejected traces %s %s" % ("same traces against the IDEAL spec (no as-built inverse)", rej[:5], "OK" if good else "** NOT AS EXPECTED **"))
        ok &= good
    # ---- C12 / TraceSlerp
    from vf.props import c12
    traces, fails = c12.record_traces(7, 60, 7)
    k = next(i for i, t in enumerate(traces) if not any(t["events"][0]["nn"]))

    def s1(ts):
        ts[k]["events"][0]["sg"][3] *= -1
        return k
    ok &= demo("C12 TraceSlerp", "TraceSlerp", core.spec_cfg("TraceSlerp", N="7"), traces, [("sign of one logged row flipped", s1)])
    # ---- C13 / TraceDropout
    from vf.props import c13
    pats = [["ok"] * 3 + ["acc0"] + ["ok"] * 8, ["ok", "mag0", "mag0"] + ["ok"] * 9, ["ok"] * 10 + ["all0", "ok"]]
    t = c13.run_cfg((0, pats, 7))
    t2 = c13.run_cfg((3, pats, 7))
    traces = t.traces + t2.traces

    def d1(ts):
        ts[0]["events"][9]["close"] = False
        return 0

    def d2(ts):
        ts[1]["events"][5]["outcome"] = "Poisoned"
        return 1
    def d3(ts):
        # the faulted slot of a run that does not refuse it (the first such trace): recorded as pulled away during the dropout
        for k_, tr in enumerate(ts):
            if tr["pattern"][3] == "acc0" and len(tr["events"]) > 3 and tr["events"][3]["outcome"] != "Rejected":
                tr["events"][3]["held"] = False
                return k_
        ts[1]["events"][1]["held"] = False
        return 1
    ok &= demo("C13 TraceDropout", "TraceDropout", core.spec_cfg("TraceDropout"), traces,
               [("'close' cleared 6 slots after the dropout", d1), ("one outcome changed to Poisoned", d2), ("'held' cleared in a faulted slot", d3)])
    # ---- C05 / TraceConvergence
    from vf.props import c05
    traces = []
    for ti in (0, 4, 12):
        traces += c05.one_run((ti, (3, 1, -2, 1), (1, 0, 0), 90, 7, None)).traces

    def v1(ts):
        ts[1]["errs"][-1] = ts[1]["tol"] + 1
        return 1
    ok &= demo("C05 TraceConvergence", "TraceConvergence", core.spec_cfg("TraceConvergence"), traces, [("last observed error raised just above the tolerance", v1)])
    # ---- C15 / TraceWmmSession
    from vf.props import c15
    res = tlc.run_tlc("MC_WmmSession", core.spec_cfg("MC_WmmSession").replace("MaxOps = 4", "MaxOps = 6"), simulate=12, depth=7, seed=5, workers=1, want_behaviours=True)
    _, traces = c15.replay_behaviours(res.behaviours)
    k = next(i for i, t in enumerate(traces) if len(t["events"]) >= 2)

    def w1(ts):
        ts[k]["events"][1]["served"][0] = "garbage"
        return k
    ok &= demo("C15 TraceWmmSession", "TraceWmmSession", core.spec_cfg("TraceWmmSession"), traces, [("elements of one answer recorded as not the asked ones", w1)])
    # ---- C19 / TraceCallerMemory
    ev = [{"f": "f%d" % (i % 3), "before": ["a%d" % (i % 2), "k"], "after": ["a%d" % (i % 2), "k"], "res": "r%d%d" % (i % 3, i % 2)} for i in range(12)]
    traces = [{"events": ev}, {"events": copy.deepcopy(ev)}]

    def m1(ts):
        ts[1]["events"][4]["after"][0] = "changed"
        return 1

    def m2(ts):
        ts[0]["events"][7]["res"] = "other"
        return 0
    ok &= demo("C19 TraceCallerMemory", "TraceCallerMemory", core.spec_cfg("TraceCallerMemory"), traces,
               [("content id of one argument differs after the call", m1), ("same callable + same contents, different result", m2)])
    tlc.cleanup()
    print("BINDING SELFTEST", "PASSED" if ok else "FAILED")
    return 0 if ok else 1


if __name__ == "__main__":
    sys.exit(main())
