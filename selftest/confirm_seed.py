#!/venv/bin/python
"""confirm_seed.py <dir-with-mutation_i.patch/demo_i.py/notes_i.md | /verif/seeded/<seed-id>> <i> <seed-id> <property> [extra check ids...]
Confirms an adversarial change in a fresh scratch worktree of /repo (never /repo itself):
demo passes on the clean tree, fails with the patch; the unedited suite still passes with the
patch; then runs the /verif checks against the patched copy.  Keeps it under /verif/seeded/<seed-id>/."""
import json, os, shutil, subprocess, sys, tempfile, time
src, i, sid, prop = sys.argv[1:5]
checks = [prop] + sys.argv[5:]
root = os.path.dirname(os.path.dirname(os.path.abspath(__file__)))
wt = tempfile.mkdtemp(prefix="ahrs-seed-")
os.rmdir(wt)
def sh(cmd, **kw):
    return subprocess.run(cmd, shell=True, stdout=subprocess.PIPE, stderr=subprocess.STDOUT, text=True, **kw)
meta = {"seed_id": sid, "property": prop, "confirmed_at_repo_commit": sh("git -C /repo rev-parse --short HEAD").stdout.strip()}
try:
    assert sh("git -C /repo worktree add --detach %s HEAD -q" % wt).returncode == 0
    patch = os.path.join(src, "mutation_%s.patch" % i)
    demo = os.path.join(src, "demo_%s.py" % i)
    old_notes = None
    if os.path.exists(os.path.join(src, "patch.diff")):
        # re-confirmation of a stored seed: <dir> is /verif/seeded/<seed-id>, <i> is ignored
        patch, demo = os.path.join(src, "patch.diff"), os.path.join(src, "demo.py")
        shutil.copy(patch, "/tmp/ahrs-seed-%d.diff" % os.getpid()); patch = "/tmp/ahrs-seed-%d.diff" % os.getpid()
        shutil.copy(demo, "/tmp/ahrs-seed-%d.py" % os.getpid()); demo = "/tmp/ahrs-seed-%d.py" % os.getpid()
        if os.path.exists(os.path.join(src, "meta.json")):
            old_notes = json.load(open(os.path.join(src, "meta.json"))).get("needs_to_manifest")
    shutil.copy(demo, os.path.join(wt, "demo_seed.py"))
    r0 = sh("cd %s && /venv/bin/python demo_seed.py" % wt)
    meta["demo_clean_exit"] = r0.returncode
    ap = sh("cd %s && git apply --3way %s || patch -p1 < %s" % (wt, patch, patch))
    meta["patch_applies"] = ap.returncode == 0
    r1 = sh("cd %s && /venv/bin/python demo_seed.py" % wt)
    meta["demo_patched_exit"] = r1.returncode
    meta["demo_patched_output_tail"] = r1.stdout[-400:]
    ts = sh("cd %s && /venv/bin/python -m pytest -q -p no:cacheprovider 2>&1 | tail -1" % wt)
    meta["suite_with_patch"] = ts.stdout.strip()
    # bytes, not text: one file of the library has CRLF line endings and a text-mode capture would strip the CRs from the patch
    diff = subprocess.run("git -C %s diff HEAD -- ahrs" % wt, shell=True, stdout=subprocess.PIPE).stdout
    res = {}
    out = tempfile.mkdtemp(prefix="ahrs-seed-out-")
    for c in checks:
        t0 = time.time()
        r = sh("AHRS_REPO=%s VERIF_OUT_DIR=%s %s/check %s quick" % (wt, out, root, c))
        sigs = [l.split("[")[-1].rstrip("]") for l in r.stdout.splitlines() if l.startswith("VIOLATION")]
        res[c] = {"exit": r.returncode, "violation_signatures": sigs[:8], "wall_s": round(time.time() - t0, 1)}
    shutil.rmtree(out, ignore_errors=True)
    meta["checks_quick"] = res
    meta["detected_by"] = [c for c in checks if res[c]["exit"] == 1]
    ok = meta["demo_clean_exit"] == 0 and meta["demo_patched_exit"] not in (0,) and "250 passed" in meta["suite_with_patch"]
    meta["confirmed"] = ok
    notes = os.path.join(src, "notes_%s.md" % i)
    meta["needs_to_manifest"] = old_notes if old_notes is not None else (open(notes).read()[:1500] if os.path.exists(notes) else "")
    meta["what_was_run"] = ["demo on clean scratch worktree", "git apply patch", "demo with patch", "full pytest suite with patch", "./check <ids> quick with AHRS_REPO=<scratch worktree>"]
    if ok and len(diff) > 50:
        d = os.path.join(root, "seeded", sid)
        os.makedirs(d, exist_ok=True)
        open(os.path.join(d, "patch.diff"), "wb").write(diff)
        shutil.copy(demo, os.path.join(d, "demo.py"))
        json.dump(meta, open(os.path.join(d, "meta.json"), "w"), indent=1)
    print(json.dumps({k: meta[k] for k in ("seed_id", "confirmed", "demo_clean_exit", "demo_patched_exit", "suite_with_patch", "detected_by")}))
    for c in checks:
        print("  ", c, res[c]["exit"], res[c]["violation_signatures"][:3])
finally:
    for f_ in ("/tmp/ahrs-seed-%d.diff" % os.getpid(), "/tmp/ahrs-seed-%d.py" % os.getpid()):
        if os.path.exists(f_):
            os.remove(f_)
    sh("git -C /repo worktree remove --force %s" % wt)
    shutil.rmtree(wt, ignore_errors=True)
