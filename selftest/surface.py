#!/venv/bin/python
"""selftest/surface.py [ids...]: run the quick checks with VERIF_COVER on and report, per function of /repo/ahrs, the executable
lines no check ever ran (docstrings and blank lines are not executable).  Output: selftest/surface_report.txt"""
import ast, os, subprocess, sys, tempfile
root = os.path.dirname(os.path.dirname(os.path.abspath(__file__)))
repo = os.environ.get("AHRS_REPO", "/repo")
ids = sys.argv[1:] or ["C%02d" % i for i in range(1, 21)]
tmp = tempfile.mkdtemp(prefix="ahrs-surface-")
hit = set()
for i in ids:
    f = os.path.join(tmp, i + ".cov")
    env = dict(os.environ, VERIF_COVER=f, VERIF_OUT_DIR=os.path.join(tmp, "out"))
    r = subprocess.run([os.path.join(root, "check"), i, "quick"], env=env, stdout=subprocess.PIPE, stderr=subprocess.STDOUT, text=True)
    print(i, "exit", r.returncode, r.stdout.strip().splitlines()[-1][:120] if r.stdout.strip() else "")
    if os.path.exists(f):
        hit |= set(open(f).read().split())
lines_total = lines_hit = 0
report = []
for dp, dn, fns in os.walk(os.path.join(repo, "ahrs")):
    for fn in sorted(fns):
        if not fn.endswith(".py"):
            continue
        path = os.path.join(dp, fn)
        rel = os.path.relpath(path, os.path.join(repo, "ahrs"))
        src = open(path).read()
        code = compile(src, path, "exec")
        exe = {}

        def walk(co, qual):
            for c in co.co_consts:
                if hasattr(c, "co_code"):
                    walk(c, (qual + "." if qual else "") + c.co_name)
            if qual:
                ls = set(l for _, _, l in co.co_lines() if l is not None)
                ls.discard(co.co_firstlineno)
                exe.setdefault(qual, set()).update(ls)
        walk(code, "")
        # a nested function's lines belong to it only
        for q in sorted(exe, key=len):
            for q2 in exe:
                if q2 != q and q2.startswith(q + "."):
                    exe[q] -= exe[q2]
        for q, ls in sorted(exe.items()):
            if not ls or "<" in q.split(".")[-1]:
                continue
            missed = sorted(l for l in ls if "%s:%d" % (rel, l) not in hit)
            lines_total += len(ls)
            lines_hit += len(ls) - len(missed)
            if missed:
                report.append((rel, q, len(ls), missed))
out = os.path.join(root, "selftest", "surface_report.txt")
with open(out, "w") as f:
    f.write("lines of /repo/ahrs function bodies executed by the quick checks %s: %d of %d (%.1f %%)\n\n" % (" ".join(ids), lines_hit, lines_total, 100.0 * lines_hit / max(1, lines_total)))
    for rel, q, n, missed in report:
        f.write("%-28s %-48s %3d/%3d never run: %s\n" % (rel, q, len(missed), n, " ".join(map(str, missed[:40])) + (" ..." if len(missed) > 40 else "")))
print(open(out).readline())
import shutil
shutil.rmtree(tmp, ignore_errors=True)
