#!/bin/sh
# selftest/try_patch.sh <patch> <ID> [tier]: run a check against a scratch copy of /repo with <patch> applied
P=$1; ID=$2; TIER=${3:-quick}
D=$(mktemp -d /tmp/ahrs-mut-XXXXXX)
trap 'rm -rf "$D"' EXIT
mkdir -p "$D/repo" "$D/out"
cp -r /repo/ahrs "$D/repo/ahrs"
(cd "$D/repo" && patch -p1 -s < "$P") || { echo "PATCH DID NOT APPLY"; exit 3; }
# a mutant may make a call loop for ever: the unchanged tree answers every call in milliseconds, so the per-call CPU limit and the tier watchdog are tightened for these runs
VERIF_CALL_CPU_LIMIT=${VERIF_CALL_CPU_LIMIT:-30} VERIF_QUICK_LIMIT=${VERIF_QUICK_LIMIT:-900} AHRS_REPO="$D/repo" VERIF_OUT_DIR="$D/out" "$(dirname "$0")/../check" "$ID" "$TIER" 2>&1 | grep -E "VIOLATION|MACHINERY|evaluations" | sed 's/replay=[^ ]* //' | cut -c1-200 | head -${MUT_LINES:-4}
