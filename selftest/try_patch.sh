#!/bin/sh
# selftest/try_patch.sh <patch> <ID> [tier]: run a check against a scratch copy of /repo with <patch> applied
P=$1; ID=$2; TIER=${3:-quick}
D=$(mktemp -d /tmp/ahrs-mut-XXXXXX)
trap 'rm -rf "$D"' EXIT
mkdir -p "$D/repo" "$D/out"
cp -r /repo/ahrs "$D/repo/ahrs"
(cd "$D/repo" && patch -p1 -s < "$P") || { echo "PATCH DID NOT APPLY"; exit 3; }
AHRS_REPO="$D/repo" VERIF_OUT_DIR="$D/out" "$(dirname "$0")/../check" "$ID" "$TIER" 2>&1 | grep -E "VIOLATION|MACHINERY|evaluations" | sed 's/replay=[^ ]* //' | cut -c1-200 | head -${MUT_LINES:-4}
