#!/bin/sh
# selftest/apalache.sh: unbounded (inductive) versions of the two integer-only monitor specifications, discharged by Apalache.
# Not part of the registered checks (the properties are decided by TLC + conformance); exit 0 when all four obligations hold.
cd "$(dirname "$0")/../spec/apalache"
O=$(mktemp -d /tmp/ahrs-apa-XXXXXX); trap 'rm -rf "$O"' EXIT
rc=0
for m in ConvergenceInd StepSourceInd; do
  for args in "--init=IndInit --inv=IndInv --length=1" "--init=Init --inv=IndInv --length=0"; do
    if timeout 900 apalache-mc check $args --out-dir="$O" $m.tla 2>&1 | grep -q "EXITCODE: OK"; then echo "ok      $m $args"; else echo "FAILED  $m $args"; rc=1; fi
  done
done
exit $rc
