#!/bin/sh
# selftest/run_seeds.sh [pattern] [jobs]: apply every stored seed (seeded/<id>/patch.diff) to a scratch copy of /repo's working tree and
# run the quick check of its property against it; a seed counts as detected when the check reports a VIOLATION (exit 1).
cd "$(dirname "$0")/.."
ROOT=$(pwd)
ls -d seeded/${1:-C}* | xargs -P ${2:-4} -I{} sh -c '
  d={}; id=$(basename "$d"); P=${id%%-*}
  out=$('"$ROOT"'/selftest/try_patch.sh "'"$ROOT"'/$d/patch.diff" "$P" quick 2>&1 | head -2)
  case "$out" in
    *VIOLATION*) echo "detected  $id  $(echo "$out" | head -1 | sed "s/.*\[//;s/\]//" | cut -c1-110)";;
    *) echo "MISSED    $id  $out";;
  esac' | sort > /tmp/run_seeds.$$.log
cat /tmp/run_seeds.$$.log
n=$(wc -l < /tmp/run_seeds.$$.log); m=$(grep -c "^MISSED" /tmp/run_seeds.$$.log)
rm -f /tmp/run_seeds.$$.log
echo "$n seeds, $m missed"; [ "$m" = 0 ]
