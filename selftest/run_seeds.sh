#!/bin/sh
# selftest/run_seeds.sh [pattern]: apply every stored seed (seeded/<id>/patch.diff) to a scratch copy of /repo's working tree and
# run the quick check of its property against it; a seed counts as detected when the check reports a VIOLATION (exit 1).
cd "$(dirname "$0")/.."
fail=0; n=0
for d in seeded/${1:-C}*; do
  id=$(basename "$d"); P=${id%%-*}
  out=$(selftest/try_patch.sh "$d/patch.diff" "$P" quick 2>&1 | head -2)
  n=$((n+1))
  case "$out" in
    *VIOLATION*) echo "detected  $id  $(echo "$out" | head -1 | sed 's/.*\[//;s/\]//' | cut -c1-110)";;
    *) echo "MISSED    $id  $out"; fail=1;;
  esac
done
echo "$n seeds"; exit $fail
