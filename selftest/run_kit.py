#!/venv/bin/python
"""selftest/run_kit.py [ids...]: applies every mutant of kit.tsv to a scratch copy of /repo (never /repo itself), runs the
named quick check against it and compares with the expectation (1 = must exit 1 with a VIOLATION, 0 = negative control:
must exit 0).  Prints a table; exit 0 iff all expectations hold."""
import os, shutil, subprocess, sys, tempfile
from concurrent.futures import ThreadPoolExecutor
ROOT = os.path.dirname(os.path.dirname(os.path.abspath(__file__)))
rows = []
for line in open(os.path.join(ROOT, "selftest", "kit.tsv")):
    if line.startswith("#") or not line.strip():
        continue
    kid, chk, f, expr, exp = line.rstrip("\n").split("\t")
    if len(sys.argv) > 1 and kid not in sys.argv[1:]:
        continue
    rows.append((kid, chk, f, expr, int(exp)))


def one(row):
    kid, chk, f, expr, exp = row
    d = tempfile.mkdtemp(prefix="ahrs-kit-")
    try:
        shutil.copytree("/repo/ahrs", os.path.join(d, "repo", "ahrs"))
        os.makedirs(os.path.join(d, "out"))
        target = os.path.join(d, "repo", f)
        before = open(target).read()
        subprocess.run(["sed", "-i", expr, target], check=True)
        if open(target).read() == before:
            return kid, chk, exp, "DID-NOT-APPLY", ""
        env = dict(os.environ, AHRS_REPO=os.path.join(d, "repo"), VERIF_OUT_DIR=os.path.join(d, "out"))
        p = subprocess.run([os.path.join(ROOT, "check"), chk, "quick"], env=env, stdout=subprocess.PIPE, stderr=subprocess.STDOUT, text=True)
        sigs = [l.split("[")[-1].rstrip("]") for l in p.stdout.splitlines() if l.startswith("VIOLATION")]
        return kid, chk, exp, p.returncode, (sigs[0] if sigs else "")
    finally:
        shutil.rmtree(d, ignore_errors=True)


with ThreadPoolExecutor(3) as ex:
    res = list(ex.map(one, rows))
ok = True
for kid, chk, exp, rc, sig in res:
    good = (rc == 1) if exp == 1 else (rc == 0)
    ok &= good
    print("%-4s %-4s expect=%d exit=%-14s %s %s" % (kid, chk, exp, rc, "ok " if good else "** MISMATCH **", sig[:110]))
print("MUTATION KIT", "PASSED" if ok else "FAILED")
sys.exit(0 if ok else 1)
