#!/bin/sh
# try all mutants (mutation_i.patch, notes_i.md with a first line "PROPERTY: Cxx") of the agent worktree /tmp/wt/$1 against the quick check of their property
T=$1
for i in 1 2 3; do
  [ -f /tmp/wt/$T/mutation_$i.patch ] || continue
  P=$(head -1 /tmp/wt/$T/notes_$i.md | sed 's/.*PROPERTY: *//' | tr -d '\r *' | cut -c1-3)
  echo "== $T-$i [$P]: $(/verif/selftest/try_patch.sh /tmp/wt/$T/mutation_$i.patch $P | head -2 | tr '\n' ' ' | cut -c1-220)"
done
