#!/usr/bin/env python3
"""the property texts handed to the adversary agents (id, title, statement, quantifier) -- nothing else from /verif"""
import json, os
root = os.path.dirname(os.path.dirname(os.path.dirname(os.path.abspath(__file__))))
for line in open(os.path.join(root, "properties.jsonl")):
    d = json.loads(line)
    print("%s -- %s\n%s\nQuantifier: %s\n" % (d["id"], d["title"], d["statement"], d["quantifier"]["text"]))
