claim("C01",
      "TLC model-checks the two-register AttitudeMachine (quaternion side / matrix side, invariants Faithful, ProperRot, "
      "RotateLaw, PointLaws) exhaustively over the closed 2O machine with every conversion/product route and over all "
      "(register, operand) pairs of the exact grid; the exact case table and -simulate behaviours are replayed through all 15 "
      "matrix, 9 product, 8 conjugate and 5 rotation routes of the real library (batch forms, scalar-last and derived objects, objects "
      "overwritten in place, integer-valued operands handed over as integers), and traces recorded from the real objects "
      "are validated by TraceAttitude. Bounded by the grid (exhaustive inside it), plus float-only relational classes.",
      "TLA+ AttitudeMachine + TLC (exhaustive/simulate) + forward replay and trace validation", "DESIGN.md section 5, C01")
claim("C09",
      "TLC checks associativity, norm multiplicativity, anti-homomorphism of conjugation, the two-sided inverse and the "
      "left/right product matrices on every triple of L(1) (thorough) / L(1) x 2O^2 (quick) in exact integers, and explores the "
      "non-versor register machine (products, conjugate, inverse, storage-order change) with every route; exact integer "
      "triples and pairs are replayed through *, @, product, q_prod, mult_L, mult_R in both storage orders with tolerance 0, "
      "and traces recorded from real non-versor objects are validated by TraceHamilton (as-built deviation for the known "
      "inverse defect).",
      "TLA+ HamiltonAlgebra + TLC + exact replay and trace validation", "DESIGN.md section 5, C09")
claim("C02",
      "The seven matrix->quaternion methods are specified in Dcm2Quat.tla as sqrt-free case analyses over the exact matrix "
      "(Shepperd's pivot with nondeterministic ties, closed-form magnitude/sign recovery, Sarabandi's arms, Hughes' identity "
      "case, Bar-Itzhack as the eigenvalue-1 eigenvector of K2/K3) and bound into AttitudeMachine as ToQuat; TLC proves "
      "MethodSound on every register of L(2), 2O, exact half-turns and thin families and emits the allowed signed outputs; "
      "the harness feeds the exact matrices (plus bigint-mirror thin families down to 1e-15 rad and eps-perturbed relational "
      "cases) to 9 method variants x 12 dispatchers (function, DCM.to_quaternion, Quaternion(dcm=), QuaternionArray(DCM=) at three "
      "positions, the array dispatcher as a method and with versors=False, column-major / transposed-view inputs) and requires a real unit quaternion equal to an allowed output; ToQuat "
      "behaviours are replayed and their recorded traces validated by TraceAttitude.",
      "TLA+ Dcm2Quat/AttitudeMachine + TLC + exact replay, bigint mirror, trace validation", "DESIGN.md section 5, C02")
claim("C10",
      "Representations.tla models the conversion machine (rpy half-angle pairs -> quaternion -> angles, axis-angle about "
      "integer-length axes -> quaternion/matrix -> axis-angle, Euler sequences -> ordered matrix product, integer powers) "
      "in exact integers; TLC checks Denotes, RpyRoundTrip, AxangRoundTrip, PowerLaws, EulerProduct on 14.5k states and emits the "
      "case table; the harness drives every route (7 rpy constructors, 4 angle extractors, axis-angle in both directions for "
      "quaternions and matrices, log/exp, 14 exponents, DCM.log, all 39 axis sequences through rot_seq / DCM keyword "
      "constructors) against the exact values, plus thin members (angles down to 2e-12 rad, pitch within 1e-6 of 90 deg) via the "
      "bigint mirror. Tolerances follow the conditioning of the arccos-based formulas (stated in evidence).",
      "TLA+ Representations + TLC + exact replay and bigint mirror", "DESIGN.md section 5, C10")
claim("C12",
      "SlerpArray.tla abstracts an array on a one-parameter subgroup to (sign, NaN) per row and specifies remove_jumps "
      "(parity of detected jumps) and slerp_nan (remove_jumps, then fill each gap on the left neighbour's side); TLC explores "
      "every sign pattern x interior NaN mask (N=7 quick / 9 thorough), checks NoJumpAfterRJ, FilledContinuesLeft, "
      "NoJumpBetweenValid, Idempotent, ZeroGapsZeroJumps and emits the full transition table plus all exact interpolation "
      "cases; the harness concretises four rational subgroups and compares rows to 1e-12 (remove_jumps, q_correct, slerp_nan "
      "both modes, both copies of slerp), checks relational endpoint classes (LERP branch, orthogonal, nearly antipodal), and "
      "TLC validates call sequences recorded on live QuaternionArray objects (TraceSlerp).",
      "TLA+ SlerpArray + TLC (exhaustive) + forward replay and trace validation", "DESIGN.md section 5, C12")
claim("C11",
      "Constructors.tla is the acceptance decision table as a machine (Construct(call) => out = Expected(call)) over constructor x "
      "shape x fill x magnitude decade x versor flag and matrix class x route; TLC checks OnlyRotations / AllDirectionsAccepted "
      "on all 1.6k rows and emits the table; the harness concretises every row at three exact directions / rotations (norms "
      "1e-100..1e100, NaN/inf/zero/wrong-shape/wrong-type fills, reflections, scaled, sheared, non-orthogonal, NaN matrices, "
      "stacks) and classifies the outcome; the observed (call, outcome) events are validated by TraceConstructors with the open "
      "findings as as-built deviations; sums/differences, random attitudes, rotate_by and average are checked to be real "
      "unit quaternions. Inputs are also handed over in other memory layouts and element types (Fortran order, transposed and strided views, "
      "integer dtype, read-only, lists of lists, magnitudes within 3 ppm of unit norm).",
      "TLA+ Constructors decision table + TLC + replay and trace validation", "DESIGN.md section 5, C11")
claim("C04",
      "SensorWorld.tla holds the per-route convention table (gravity reference, magnetic reference form, direction type A/B), the "
      "Measure/Estimate machine and the GeneralPosition predicate; TLC checks WellPosed and Recovers for every attitude x dip x "
      "convention x scaling (it excluded OLEQ's collinear reference pair at dip 0 by counterexample) and emits exact integer "
      "measurement vectors; 40 estimator routes (constructor and estimate(), all modes/frames/representations) are fed these "
      "measurements at several positive scalings and the rotation matrix of the output must equal the exact matrix of the ghost "
      "attitude (all attitudes for the singularity-free class, general position for the closed-form class); the observed calls "
      "are abstracted and validated by TraceSensorWorld. Oleq.tla states OLEQ's theory in exact integers (W(b,r) = LeftMat(r)^T RightMat(b) is the "
      "code's hand-expanded matrix, symmetric involution, the attitude its fixed and dominant direction) and names the code's 21-step power "
      "iteration from a random start as an as-built deviation; the code's output must coincide with that iteration on the exact matrices "
      "emitted by TLC (same seed, four routes), so changes to OLEQ are detected although its ideal property is a recorded finding.",
      "TLA+ SensorWorld + Oleq (as-built model) + TLC + exact replay and trace validation", "DESIGN.md section 5, C04")
claim("C03",
      "FilterLifecycle.tla carries the configuration catalogue transcribed from the constructors (19 classes x architecture x "
      "frame x representation x mode x gain class x rate class = 231 configurations, enumerated by TLC) and the run machine with "
      "OneRowPerSample / FaultFreeIsOk; the harness builds every configuration over seeded random histories (magnitudes over six "
      "decades, acc/mag >= 1 degree apart) and over exact canonical poses (level at 12 headings, inverted, each axis vertical, two "
      "measurement conventions) at several lengths and validates every row (count, real dtype, finite, unit / proper rotation / "
      "finite angles); also with the magnetic reference the data were made from (exact zeros in the heading formulas), through the one-sample "
      "constructor and estimate() row by row, and over one long history (12 000 / 50 000 rows) per recursive class; observed runs are validated by TraceLifecycle.",
      "TLA+ FilterLifecycle catalogue + TLC + replay over enumerated configurations, trace validation", "DESIGN.md section 5, C03")
claim("C07",
      "Vectorised.tla fixes the catalogue of 79 twin pairs (QuaternionArray vs Quaternion conversions, 9 matrix->quaternion "
      "variants, N-by-3-by-3 vs 3-by-3 functions, batch vs single metrics, N-sample constructors vs estimate() of every single-frame "
      "estimator and option) and the arrangements of six row classes (generic, half-turn, near-half-turn, near-identity, identity) "
      "over N in {1,2,3,4,5} (3 and 4 make the arrays square: shape-based dispatch is ambiguous there), with the invariant RowLocal; TLC enumerates all (pair, arrangement) cases; the harness concretises "
      "them with exact rows and requires row i of the array path to equal the scalar path within 1e-12 (NaN pattern included, "
      "sign-free for eigen-solvers), plus one-sample constructors vs one-row batches with options honoured (weights, order='S', frames, "
      "representations), in three data forms (float, integer dtype, non-normalised).",
      "TLA+ Vectorised catalogue + TLC enumeration + abstract-state determinism replay", "DESIGN.md section 5, C07")
claim("C06",
      "FilterLifecycle.tla with two instances (Create from an initial sample / Update / Batch / Drop) defines the abstract state "
      "(cfg, consumed history); TLC checks OneRowPerSample, BatchEqualsStream and the action property Isolation over all "
      "interleavings of 2 instances x 3 sample ids x histories <= 3 exhaustively and generates longer behaviours by -simulate; the "
      "harness replays every behaviour on real objects of 53 configurations (batch-only Complementary / FKF on their Batch actions; Madgwick, Mahony, EKF incl. "
      "magnetometer, UKF, AQUA incl. adaptive, ROLEQ, Fourati, AngularRate; caller-shared q0 / b0 / P arrays) with a second class "
      "interleaved, twice, and enforces abstract-state determinism: equal abstract state => attitudes and carried state (P, b, "
      "alpha) equal within 1e-12, repeats bit-identical.",
      "TLA+ FilterLifecycle + TLC (exhaustive interleavings, simulate) + abstract-state determinism replay", "DESIGN.md section 5, C06")
claim("C13",
      "DropoutMonitor.tla enumerates the fault patterns (<= 2 dropout runs of 1..3 slots; kinds acc0, mag0, gyr0, accmag0, all0; 12 "
      "slots = 8 325 patterns) and is the safety automaton of the property (per-slot outcome in the set FilterCatalogue allows for "
      "what the configuration can see, never Poisoned; close again Recover slots after the last visible fault; a rejected run "
      "stops at a visible fault); TLC explores it with every outcome choice; the harness stretches each slot to 25 samples of a "
      "motionless sensor, runs 15 recursive filter/architecture configurations on the faulted history and on the same history "
      "without dropout, abstracts each slot to (outcome, close, held) and TLC validates the traces (TraceDropout); held = a run that was close "
      "when a visible fault begins is, at the end of the faulted slot, where dead reckoning from its last estimate puts it ('skips its correction').",
      "TLA+ DropoutMonitor + TLC fault enumeration + trace validation of real runs", "DESIGN.md section 5, C13")
claim("C05",
      "ConvergenceMonitor.tla is the property's safety automaton (within Tol from the budget on, absorbing; final error not above "
      "max(initial, Tol)), model-checked by TLC; the motionless data are exact images of each filter's own references "
      "(SensorWorld convention table); the harness runs 17 recursive filter configurations (Madgwick, Mahony, EKF, AQUA, ROLEQ, "
      "Complementary, FKF, UKF; IMU/MARG, NED/ENU, default and non-default gains; batch q0 route and streaming route) from "
      "initial errors {0,30,90,150,175} degrees about several axes at exact true attitudes with seeded gyro noise, observes the "
      "error every 50 samples and TLC validates each observation trace against the automaton (TraceConvergence) with the "
      "per-filter budget / tolerance table.",
      "TLA+ ConvergenceMonitor + TLC + trace validation of real convergence runs", "DESIGN.md section 5, C05")
claim("C08",
      "Integrator.tla models constant-rate integration in exact quaternions: the closed form as the machine q_{k+1} = q_k * u over "
      "the finite group 2O (orbits of any length) and over rational steps (ClosedFormExact, Semigroup), the first-order step and "
      "its conjugate-convention twin (ConventionsAgree), and the order-K series as c_K q + s_K q*(0,w) with rational coefficients "
      "(ThetaSquared, SeriesLowOrders); TLC emits the exact cases; the harness checks AngularRate closed/series (update, batch, "
      "k steps vs one step of k dt), the null-accelerometer step of Madgwick/Mahony(incl. carried bias)/AQUA IMU+MARG, EKF.f, "
      "ROLEQ.attitude_propagation against the exact values, plus seeded in-range runs up to 400 steps, 2O orbits, the series "
      "remainder bound and monotone improvement, and angular_velocities integrating back (also from scalar-last storage). StepSource.tla specifies "
      "where a call takes its step size from (object's own Dt / frequency, or the one named in the call, never remembered); its 156 call "
      "schedules are replayed on live Madgwick/Mahony/AQUA/ROLEQ/AngularRate objects.",
      "TLA+ Integrator + TLC + exact replay (bigint/Fraction mirror for realistic step sizes)", "DESIGN.md section 5, C08")
claim("C18",
      "Metrics.tla expresses every metric through the rational C2(p,q) = cos^2(t/2) and checks, on all 110 592 triples of 2O in exact "
      "integers, non-negativity, symmetry, sign invariance, zero-iff-same-rotation, left and right invariance, the trace form of "
      "the chordal distance and the triangle inequality (integer angle table); TLC emits the pair table; the harness compares all "
      "seven functions (single, swapped, negated, 2-, 3- and 4-row arrays) with the closed forms in t on 2O x 2O (exact angles), a rational grid and "
      "thin pairs (1e-4 rad .. pi - 1e-4 rad via the bigint mirror), and checks bi-invariance and triangle inequalities on seeded "
      "float triples.",
      "TLA+ Metrics + TLC (exhaustive over 2O^3) + exact replay", "DESIGN.md section 5, C18")
claim("C17",
      "FrameGraph.tla has the frames as nodes and the 19 public conversion functions (degree and radian variants) as edges; TLC "
      "enumerates every identity path of length <= 4 (124 paths; angular frames left in the unit they were entered with) and "
      "checks, in integers, Isometry and OriginToZero of the exact rational ECEF->ENU rotation at Pythagorean origins; the harness "
      "walks every identity path from start points covering both poles, +-89.9999, the equatorial plane, +-180, heights -10..1000 "
      "km, offsets to 1e6 m, 7 origins (incl. polar) and 6 DCA angles and requires the start coordinates back; exact ENU "
      "coordinates, isometry, origin->0 and the orthogonal-transpose relation of the local-level matrices are compared with the "
      "specification's rationals.",
      "TLA+ FrameGraph + TLC path enumeration + replay of identity paths, exact rational rotation", "DESIGN.md section 5, C17")
claim("C16",
      "Ellipsoid.tla carries the level ellipsoid in reduced exact rationals: the defining identities of b, e^2, e'^2, polar curvature "
      "radius and mean radius, the Somigliana coefficients at Pythagorean latitudes and the rotating-sphere limit, which TLC shows "
      "to satisfy Pizzetti's theorem exactly, over the emitted parameter grid; the harness scales every parameter set to three "
      "unit decades and two gravity scales, mirrors the rationals with Fractions for flattenings beyond 32 bits (1e-6 .. 1/298.257 "
      ".. 1/5) and checks derived constants (1e-12), Pizzetti's residual, Somigliana at 10 latitudes, positivity, symmetry, end "
      "points, decrease with height to 0.5 % of a, closeness to and continuity with the rotating sphere for f <= 1e-4 and f = 0, "
      "and the shipped planets.",
      "TLA+ Ellipsoid (exact rationals) + TLC + relational replay", "DESIGN.md section 5, C16")
claim("C20",
      "SyntheticSensors.tla models a trajectory q_k = q_0 r^k observed by ideal sensors with the integer invariants ConstantRate, "
      "RigidReadings and BackToReference checked by TLC over starts x steps x references; the harness builds the exact "
      "trajectories (grid and realistic small-step ones via the bigint mirror, lengths 10..200, 10..400 Hz), feeds them to Sensors "
      "with zero noise and requires accelerometers / magnetometers = R_k^T ref, rotations / quaternions / angular positions of "
      "the same attitudes, gyroscopes - bias = the generator's first-order rate (radians and degrees), integration back to the "
      "trajectory, requested = reported = applied noise levels (zero, default, explicit), and the same consistency on the "
      "random-trajectory route.",
      "TLA+ SyntheticSensors + TLC + exact replay (bigint mirror)", "DESIGN.md section 5, C20")
claim("C19",
      "CallerMemory.tla models caller-owned buffers with content ids and well-behaved calls (memory unchanged, result a function of "
      "(callable, argument contents)); TLC checks Repeatable and the action property CallsDoNotWrite over all call/write "
      "interleavings of 2 buffers x 2 contents x 2 callables; the catalogue of public callables is built by introspection "
      "(orientation, quaternion, dcm, frames, mathfuncs, geometry, metrics; every public method and property of Quaternion / "
      "QuaternionArray / DCM called twice on the same object; constructors, estimate and update* of 19 estimator classes with "
      "caller-owned q0 / b0 / P / weights) with unit and non-normalised / degree-sized arguments; every call is logged with SHA-1 "
      "content ids of all array arguments (and the object) before and after and of the result, and TLC validates the log "
      "(TraceCallerMemory).",
      "TLA+ CallerMemory + TLC + trace validation of introspected calls", "DESIGN.md section 5, C19")
claim("C15",
      "WmmSession.tla models one WMM object over its life (loaded coefficient file, number of in-place scalings of the loaded table, "
      "current date, identity of the answer its elements hold) with named as-built deviations; TLC proves ServesWhatWasAsked and "
      "ScaledOnce for every history of <= 4 operations over 3 dates u None x 6 places (equator, prime meridian, both poles, 180 deg, "
      "Munich) x 2 frames for the ideal object and generates longer histories; the harness replays them on real objects and "
      "enforces abstract-state determinism (elements bit-equal to a fresh object's answer for the same (date, place, frame)), element "
      "consistency (H, F, I, D), ENU = NED swapped incl. spelling, +-180 equality, finiteness at the poles, constructor = method; the "
      "recorded histories are validated by TraceWmmSession.",
      "TLA+ WmmSession + TLC (exhaustive histories, simulate) + replay and trace validation", "DESIGN.md section 5, C15")
claim("C14",
      "(1) WmmDate.tla: dates in tenths of a year, Epoch/Dt, calendar days with their rounding to the tenth grid and an ambiguity "
      "predicate; TLC checks EpochContains / CalendarInItsEpoch on all 151 grid dates and 5 844 calendar days of 2015-2030. (2) "
      "WmmSynth.tla: the DEFINITION of the Schmidt semi-normalised associated Legendre functions and their latitude derivative as "
      "explicit finite sums and the implementation's ALGORITHM (Gauss-normalised recursion, k[m,n], scale factors) in exact reduced "
      "rationals, with AlgorithmIsDefinition / DerivativeIsColatitude proved by TLC up to degree 6 at Pythagorean latitudes incl. "
      "both poles. The harness checks its Fraction mirror of the DEFINITION operators against TLC's values, evaluates the degree-12 "
      "synthesis from independently parsed .COF files at 14 places (poles to 850 km, equator, +-180) x dates incl. the epoch "
      "boundaries x {method, constructor} (1e-5 nT), calendar dates against (file, dt) of the specification, and time-affinity "
      "inside each epoch.",
      "TLA+ WmmDate + WmmSynth (exact rationals) + TLC + Fraction-mirror replay", "DESIGN.md section 5, C14")
