claim("C01",
      "TLC model-checks the two-register AttitudeMachine (quaternion side / matrix side, invariants Faithful, ProperRot, "
      "RotateLaw, PointLaws) exhaustively over the closed 2O machine with every conversion/product route and over all "
      "(register, operand) pairs of the exact grid; the exact case table and -simulate behaviours are replayed through all 9 "
      "matrix, 7 product, 5 conjugate and 3 rotation routes of the real library, and traces recorded from the real objects "
      "are validated by TraceAttitude. Bounded by the grid (exhaustive inside it), plus float-only relational classes.",
      "TLA+ AttitudeMachine + TLC (exhaustive/simulate) + forward replay and trace validation", "DESIGN.md section 5, C01")
