claim("C01",
      "TLC model-checks the two-register AttitudeMachine (quaternion side / matrix side, invariants Faithful, ProperRot, "
      "RotateLaw, PointLaws) exhaustively over the closed 2O machine with every conversion/product route and over all "
      "(register, operand) pairs of the exact grid; the exact case table and -simulate behaviours are replayed through all 9 "
      "matrix, 7 product, 5 conjugate and 3 rotation routes of the real library, and traces recorded from the real objects "
      "are validated by TraceAttitude. Bounded by the grid (exhaustive inside it), plus float-only relational classes.",
      "TLA+ AttitudeMachine + TLC (exhaustive/simulate) + forward replay and trace validation", "DESIGN.md section 5, C01")
claim("C09",
      "TLC checks associativity, norm multiplicativity, anti-homomorphism of conjugation, the two-sided inverse and the "
      "left/right product matrices on every triple of L(1) (thorough) / L(1) x 2O^2 (quick) in exact integers, and explores the "
      "non-versor register machine (products, conjugate, inverse, storage-order change) with every route; exact integer "
      "triples and pairs are replayed through *, @, product, q_prod, mult_L, mult_R in both storage orders with tolerance 0, "
      "and traces recorded from real non-versor objects are validated by TraceHamilton (as-built deviation for the known "
      "inverse defect).",
      "TLA+ HamiltonAlgebra + TLC + exact replay and trace validation", "DESIGN.md section 5, C09")
