#!/venv/bin/python
"""print source of functions/methods of a repo file without docstrings: src.py file name [name...]"""
import ast, sys
path = sys.argv[1]; names = sys.argv[2:]
src = open(path).read(); tree = ast.parse(src); lines = src.splitlines()
def show(node, prefix=""):
    doc = None
    if node.body and isinstance(node.body[0], ast.Expr) and isinstance(getattr(node.body[0], 'value', None), ast.Constant) and isinstance(node.body[0].value.value, str):
        doc = node.body[0]
    start = node.lineno - 1 - len(node.decorator_list)
    skip = set(range(doc.lineno - 1, doc.end_lineno)) if doc else set()
    print("## %s%s  (%s:%d-%d)" % (prefix, node.name, path, node.lineno, node.end_lineno))
    for i in range(start, node.end_lineno):
        if i in skip: continue
        if lines[i].strip() == "": continue
        print("%5d %s" % (i + 1, lines[i]))
for node in ast.walk(tree):
    if isinstance(node, ast.ClassDef):
        for sub in node.body:
            if isinstance(sub, (ast.FunctionDef,)) and (sub.name in names or (node.name + "." + sub.name) in names or node.name in names):
                show(sub, node.name + ".")
for node in tree.body:
    if isinstance(node, ast.FunctionDef) and node.name in names:
        show(node)
