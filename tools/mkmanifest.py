#!/venv/bin/python
"""Regenerates /verif/MANIFEST.json from the table below (single source of truth)."""
import json, os
ROOT = os.path.dirname(os.path.dirname(os.path.abspath(__file__)))
BASE = "cd /repo && /venv/bin/python -m pytest -ra -q -p no:cacheprovider --timeout=900 --continue-on-collection-errors"
TRUST = ("TLC 1.8 (32-bit exact integer arithmetic); gamma/alpha of vf/core.py (one correctly rounded division / sqrt / "
         "atan2 per concretised component); NumPy matmul/det/norm in validity checks; CPython.")
FORMS = (" While the check runs, every public callable it drives is also called with the same values in the other argument forms "
         "enumerated by TLC from ArgumentForms.tla (lists, tuples, strided / Fortran-ordered arrays, option strings in another case, real scalars "
         "as NumPy scalars / 0-d arrays / ints, documented synonyms) and must give the same answer; a call given options is bracketed by the same "
         "call without them (OptionScope.tla), which must answer the same before and after (vf/forms.py).")
CHECKS = {}
NA = {}

def claim(pid, text, technique, ref, note=TRUST):
    CHECKS[pid] = dict(text=text, technique=technique, ref=ref, note=note)

exec(open(os.path.join(ROOT, "tools", "manifest_table.py")).read())

props = [json.loads(l)["id"] for l in open(os.path.join(ROOT, "properties.jsonl"))]
man = {
    "version": 1,
    "setup_cmd": "true",
    "hooks": {"guard": "AHRS_VERIF", "enable": "no source hooks: the library is sequential and every specification action "
              "is observed at the return of a public call; the checks import ahrs from /repo's working tree (AHRS_REPO overrides)",
              "baseline_off_cmd": BASE, "source_commits": [], "add_only": True},
    "engines": [{"name": "tla-conformance", "path": "/verif/check", "serves_properties": sorted(CHECKS),
                 "kind_free_text": "explicit TLA+ specifications under spec/ model-checked by TLC (exhaustive + -simulate); "
                 "specification cases/behaviours replayed into the real ahrs objects and traces recorded from the real "
                 "objects validated by TLC trace specifications (vf/)"}],
    "checks": [],
    "not_applicable": [],
    "notes": "See DESIGN.md. known_findings.json lists genuine defects recorded rather than repaired.",
}
for pid in props:
    if pid in CHECKS:
        c = CHECKS[pid]
        man["checks"].append({
            "property_id": pid,
            "quick_cmd": "./check %s quick" % pid,
            "thorough_cmd": "./check %s thorough" % pid,
            "evidence_file": "/verif/evidence/%s.json" % pid,
            "replay_cmd_template": "./check %s --replay {path}" % pid,
            "engine": "tla-conformance",
            "level_claimed": {"category": "model_checking", "text": c["text"] + FORMS, "design_ref": c["ref"]},
            "level_note": c["note"],
            "technique": c["technique"],
        })
    else:
        man["not_applicable"].append({"property_id": pid, "reason": NA.get(pid, "check not built yet in this round (planned in DESIGN.md section 5)")})
json.dump(man, open(os.path.join(ROOT, "MANIFEST.json"), "w"), indent=1)
print("claimed:", sorted(CHECKS), "not claimed:", [p for p in props if p not in CHECKS])
